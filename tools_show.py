#!/usr/bin/env python3
import json,sys,glob
for f in sorted(glob.glob(sys.argv[1])):
    v=json.load(open(f))
    print("=====",f)
    print("MSG:",v['msg'][:500])
    d=v['detail']
    for k in ('input','base','expected','outcome','why','item','failure','class','first','second'):
        if k in d:
            s=d[k] if isinstance(d[k],str) else json.dumps(d[k])
            print(f"-- {k}:\n{s[:1500]}")
