#!/usr/bin/env python3
"""Regenerates MANIFEST.json from the table below (kept in one place so it stays valid)."""
import json, sys

CHECKS = {
 # id: (engine, technique, level text, level note, design ref)
}
def add(id, engine, technique, text, note, ref):
    CHECKS[id] = (engine, technique, text, note, ref)

TB = "trusted base: rustc/cargo, syn, proc-macro2, quote, proptest; derive is called in-process through the pub fn o2o_impl::expand::derive on syn::parse_str input (o2o-macros only adds parse_macro_input + to_compile_error)"

add("C15", "E1", "property-based testing: fault injection into generated valid inputs, message-table oracle",
    "Exploration: proptest search over choice tapes; a valid-mode generated input gets 0/1/2 documented misuses injected at random admissible positions; expected diagnostics come from a table transcribed from the documentation/tests. Shows reporting is complete and position-independent on what was sampled; cannot prove absence.",
    TB + "; the message table (DESIGN.md appendix B) is the oracle", "DESIGN.md 3/C15")
add("C16", "E1", "property-based testing + structure-aware fuzzing: generated wild inputs, no-unwind oracle",
    "Exploration: wild-mode L1 inputs, token-soup arguments, valid-mode inputs and the instruction-selection lattice (any trait spelling x hint x member instructions of related spellings, child parents / ghosts / variants of any hint) are expanded under catch_unwind; any panic is a violation unless it matches an open known finding (message class + file + enclosing fn). Sampled, not exhaustive.",
    TB, "DESIGN.md 3/C16")
add("C17", "E1", "property-based testing: generated accepted inputs, strict-parse + signature-shape oracle",
    "Exploration: every accepted generated input's output (valid mode, recombined inputs, instruction-selection lattice) is cut into items, each parsed with syn 2 (full) and checked against the documented trait/method/signature shape.",
    TB + "; syn 2 full parser decides syntactic validity", "DESIGN.md 3/C17")
add("C19", "E1+X", "property-based testing: repeat-and-compare in-process and across fresh processes",
    "Exploration: each generated input (weighted towards multi-diagnostic ones) is expanded three times in-process and by 3-6 fresh processes; results must be identical, diagnostics compared as a sequence.",
    TB + "; hash seeds are sampled through std's per-instance / per-process RandomState, not enumerated", "DESIGN.md 3/C19")

add("C04", "E1", "property-based testing: generated trait-instruction sets, README-table oracle + permutation metamorphic relation",
    "Exploration: random exact covers of (kind, fallibility) cells by the 24 instruction names over 8 counterpart type forms and 5 error type forms; the multiset of impl headers (trait, T vs &T, self type, method, type Error) must equal an independently transcribed table, and must not change under permutation of the instructions.",
    TB + "; the header table transcribed from README lines 190-264 is the oracle", "DESIGN.md 3/C04")
add("C05", "E1", "property-based testing: reference-model oracle (independent select()) + add-one non-interference metamorphic relation",
    "Exploration: tie-free random sets of member instructions with unique markers on one member, all 12 kinds x 1-3 counterparts; an independent implementation of the precedence chain stated in the property predicts which marker each of the impls contains; adding an instruction in a free cell must leave every impl with unchanged winner token-identical; adding a default #[ghost] / #[child] / #[parent(..)] that every concerned counterpart shadows with a dedicated one must change nothing for those counterparts.",
    TB + "; the reference select() encodes the property text (fallible into_existing falls back to try_into before into)", "DESIGN.md 3/C05")
add("C06", "E1", "property-based testing: projection metamorphic relation between two expansions",
    "Exploration: generated inputs with 2-3 counterparts and dedicated/default instructions of every kind; impls for counterpart A in the full expansion must equal the expansion of the input projected onto A. Two parts: valid-by-construction inputs without repeat (a rejection that only the other counterparts' instructions cause is a violation too), and the same inputs with member-level repeat / skip_repeat / stop_repeat blocks laid over them (impls compared when both are accepted).",
    TB, "DESIGN.md 3/C06")
add("C12", "E1", "property-based testing: rewrite metamorphic relation (shortcut -> basic instructions)",
    "Exploration: every shortcut occurrence (type, member, variant, nested parent, ghost/ghosts) of a generated input is rewritten in place into the tabulated basic instructions; verdict and multiset of impl items must be equal. A second part applies the same rewrite at token level to the instruction-selection lattice of C16 / C17, about half of whose inputs are rejected, so that accepted-or-rejected-alike is exercised on misuse (wrong ghost entry forms, missing hints, inapplicable member instructions) and not only on valid inputs.",
    TB + "; the shortcut table is transcribed from the README", "DESIGN.md 3/C12")
add("C13", "E1", "property-based testing: rewrite metamorphic relation (three spellings of one AST)",
    "Exploration: the same generated AST rendered all-bare, each-wrapped and randomly grouped must give the same accept/reject decision and byte-identical output. A second part re-spells, at token level, the inputs of the instruction-selection lattice of C16 / C17 (about half rejected) the same three ways.",
    TB, "DESIGN.md 3/C13")
add("C14", "E1", "property-based testing: reference write-out transformation + equality of two expansions",
    "Exploration: generated member sequences / trait instruction lists with random non-conflicting repeat, skip_repeat, stop_repeat placements; a reference write_out implementing the property's two sentences on the AST must expand to byte-identical output.",
    TB + "; write_out (gen_repeat.rs) is the reference model", "DESIGN.md 3/C14")

add("C10", "E1", "property-based testing: generated token trees, independent substitution oracle (contiguous subsequence)",
    "Exploration: random token trees containing @ and ~ at every nesting depth are placed in 12 expression positions; an independent substitution over the flattened token sequence must occur contiguously in the body of every impl the instruction applies to.",
    TB + "; the designated path for ~ per position is transcribed from the property text and README", "DESIGN.md 3/C10")
add("C18", "X", "differential testing of two builds (syn1 vs syn2 back-end) over generated corpora",
    "Exploration: each generated input is expanded by two separately built binaries (o2o-impl feature syn / syn2); verdict, token strings and the set of o2o diagnostics must agree.",
    TB + "; dump-syn1 / dump-syn2 are built from the same dump_common.rs", "DESIGN.md 3/C18")

TB2 = TB + "; rustc type-checks and runs both the pasted expansion and the hand-rolled reference, so no expression evaluator is trusted; leaf types are i64/i32"
add("C01", "E2", "property-based testing: generated mapping plans, compile-and-run differential against a hand-rolled reference",
    "Exploration: semantic mapping plans (10 documented struct forms, all 12 kinds, every member-instruction role) are rendered into o2o instructions and, independently, into reference functions; each batch is compiled by rustc next to harness-owned types and run on distinct leaf values; whole-value equality per conversion flavour.",
    TB2, "DESIGN.md 3/C01")

add("C02", "E2", "property-based testing: generated enum mapping plans, compile-and-run differential against reference match functions",
    "Exploration: enum plans (variant renames, type_hint form switches, payload roles incl. by-ref deref expressions, ghost variants, D-only variants, default cases, variant-level expressions) rendered into instructions and independently into reference match functions; every source variant is converted with distinct payload values and compared.",
    TB2, "DESIGN.md 3/C02")
add("C03", "E2", "property-based testing: generated nesting trees with permuted flat members, compile-and-run differential against literal nested construction",
    "Exploration: random nesting trees (named/tuple nodes, child-path ghosts) with the flat struct's members in a random permutation, and the inverse family (#[parent(..)] recursive / bare #[parent]); rustc must accept the expansion (a struct built twice or a missing member is a compile error) and From/Into/IntoExisting results must equal a literally written reference.",
    TB2, "DESIGN.md 3/C03")

add("C07", "E2", "property-based testing: pairwise (metamorphic) agreement of the 12 flavours of one generated mapping, compiled and run",
    "Exploration: one generated mapping is requested in all 12 flavours (fallible ones on a twin type with the same member instructions, optionally with an error-raising member); by-ref vs owned, Try vs Ok(infallible), error propagation, and into_existing vs into on a sentinel-filled destination are compared at run time. No reference function is involved.",
    TB2, "DESIGN.md 3/C07")
add("C08", "E2+E1", "property-based testing: execution-trace / value oracle for vars, ..update and return (compiled and run) + token-position oracle for the three attribute parameters",
    "Exploration: (E2) generated parameter lists on every requested kind; a thread-local trace records the evaluation of var initialisers and member expressions, values are compared with the plan's expected value; (E1) attribute / impl_attribute / inner_attribute markers must sit at the documented token positions of every impl the instruction produces and nowhere else.",
    TB2, "DESIGN.md 3/C08")
add("C09", "E2", "property-based testing: first-match reference model, exhaustive over 8-bit value domains, compiled and run",
    "Exploration: generated literal / pattern assignments (distinct and overlapping) over i8, u8, i32 and &'static str; From is compared with an if-chain model on every value of 8-bit types and on boundary values otherwise; Into on every variant; round-trip for unshadowed literals.",
    TB2 + "; exhaustive over the primitive's values only for i8/u8", "DESIGN.md 3/C09")
add("C11", "E2", "property-based testing: differential type-checking against hand-written reference impl headers (rustc --emit=metadata)",
    "Exploration: generated parameter lists (lifetimes, bounded / const / defaulted params), counterpart paths with generic and counterpart-only lifetime arguments, where_clauses; hand-written impls for twin types with headers rendered from the property text must type-check (else discarded) and then the pasted o2o impls must, plus use-site fns through every impl; README borrowing shapes check the 'o2o outlives bound.",
    TB2 + "; compile-only (no run)", "DESIGN.md 3/C11")
add("C20", "E1+E2", "property-based testing: token-vocabulary invariant over generated expansions + #![no_std] type-check of generated mapping plans",
    "Exploration: (E1) every library path in generated expansions must be one of the allowed core / o2o::traits paths or be made of user names, and no std/alloc/prelude-only identifier may be introduced; (E2) the mapping plans of C01/C02/C03/C07 are type-checked as a #![no_std] rlib against the no-feature o2o crate.",
    TB2, "DESIGN.md 3/C20")

NOT_YET = {
}

def main():
    props = [json.loads(l) for l in open('/verif/properties.jsonl')]
    checks = []
    na = []
    for p in props:
        id = p['id']
        if id in CHECKS:
            engine, technique, text, note, ref = CHECKS[id]
            checks.append({
                "property_id": id,
                "quick_cmd": f"./vf check {id} --tier quick",
                "thorough_cmd": f"./vf check {id} --tier thorough",
                "evidence_file": f"/verif/evidence/{id}.json",
                "replay_cmd_template": f"./vf replay {id} {{path}}",
                "engine": engine,
                "level_claimed": {"category": "exploration", "text": text, "design_ref": ref},
                "level_note": note,
                "technique": technique,
            })
        else:
            na.append({"property_id": id, "reason": NOT_YET.get(id, "check not built yet in this revision of /verif (planned, see DESIGN.md section 3); the technique applies")})
    m = {
        "version": 1,
        "setup_cmd": "./vf build",
        "hooks": {
            "guard": "o2o_verif",
            "enable": "none needed: o2o_impl::expand::derive is a pub fn of an ordinary library crate; checks link /repo/o2o-impl as a path dependency (RUSTFLAGS --cfg o2o_verif is reserved and currently guards no code)",
            "baseline_off_cmd": "cd /repo && cargo nextest run --workspace --no-fail-fast --offline",
            "source_commits": [],
            "add_only": True,
        },
        "engines": [
            {"name": "E1", "path": "engine/vf-core", "serves_properties": sorted(k for k,v in CHECKS.items() if 'E1' in v[0]), "kind_free_text": "in-process proptest search over choice tapes calling o2o_impl::expand::derive; token-level oracles"},
            {"name": "E2", "path": "engine/vf-core (e2 module)", "serves_properties": sorted(k for k,v in CHECKS.items() if 'E2' in v[0]), "kind_free_text": "generate program + hand-rolled reference, compile with rustc, run, compare"},
            {"name": "X", "path": "engine/vf-core (xproc) + engine/dump-syn2", "serves_properties": sorted(k for k,v in CHECKS.items() if 'X' in v[0]), "kind_free_text": "cross-process / cross-back-end differential over generated corpora"},
        ],
        "checks": checks,
        "not_applicable": na,
        "notes": "All checks: exit 0 = held on everything explored, 1 = VIOLATION line + replay file, 2 = infrastructure/inconclusive. VERIF_SEED selects the proptest ChaCha seed; work is split into a fixed 16 shards. known_findings.txt lists open findings (KNOWN-FINDING lines) and repaired ones (fixed: lines).",
    }
    json.dump(m, open('/verif/MANIFEST.json','w'), indent=1)
    print("checks:", len(checks), "not_applicable:", len(na))
main()
