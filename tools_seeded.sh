#!/bin/bash
# tools_seeded.sh import <ID> <n>      copy /tmp/wt/<ID>/seeded/<n> to /verif/seeded/<ID>-<n>
# tools_seeded.sh confirm <ID> <n>     in the scratch worktree /tmp/wt/<ID>: suite passes with the patch, demo fails with / passes without
# tools_seeded.sh detect <ID> <n> [PROP...]  apply to /repo, run the quick check(s) (default: the seeded property), undo
set -u
cmd=$1; id=$2; n=$3; shift 3
dir=/verif/seeded/$id-$n
wt=/tmp/wt/$id
case $cmd in
  import)
    mkdir -p $dir && cp -r $wt/seeded/$n/. $dir/ && ls $dir ;;
  confirm)
    cd $wt && git checkout -q -- . && git clean -fdq o2o-tests/tests o2o-impl/src 2>/dev/null
    demo=$(ls $dir | grep -E '^demo' | head -1)
    name=$(echo ${id}_demo_${n} | tr 'A-Z' 'a-z')
    place() { if grep -q "fn derive\|derive(&" $dir/$demo 2>/dev/null && ! grep -q "derive(o2o" $dir/$demo; then cat $dir/$demo >> o2o-impl/src/tests.rs; echo impl; else cp $dir/$demo o2o-tests/tests/$name.rs; echo tests; fi; }
    where=$(place)
    if [ "$where" = tests ]; then run="cargo test --workspace --offline --test $name"; else run="cargo test -p o2o-impl --features syn --offline"; fi
    echo "== demo WITHOUT patch ($where)"; CARGO_NET_OFFLINE=true $run 2>&1 | grep -E "^test result|error(\[|:)|FAILED|panicked" | head -5
    git apply $dir/patch.diff || { echo "PATCH DOES NOT APPLY"; exit 1; }
    echo "== demo WITH patch"; CARGO_NET_OFFLINE=true $run 2>&1 | grep -E "^test result|error(\[|:)|FAILED|panicked" | head -5
    # full suite with patch, without the demo
    if [ "$where" = tests ]; then rm -f o2o-tests/tests/$name.rs; else git checkout -q -- o2o-impl/src/tests.rs; git apply $dir/patch.diff 2>/dev/null; fi
    echo "== full suite WITH patch"; CARGO_NET_OFFLINE=true cargo nextest run --workspace --no-fail-fast --offline 2>&1 | tail -1
    git checkout -q -- . ; git clean -fdq o2o-tests/tests 2>/dev/null ;;
  detect)
    props=${@:-$id}
    cd /repo && git apply $dir/patch.diff || { echo "PATCH DOES NOT APPLY TO /repo"; exit 1; }
    for p in $props; do
      ( cd /verif && ./vf check $p --tier quick 2>&1 | grep -E "^VIOLATION|^\[|inconclusive|^  " | cut -c1-260 | head -8; echo "exit=${PIPESTATUS[0]}" )
    done
    cd /repo && git checkout -q -- . ;;
esac
