#!/usr/bin/env python3
"""Apply every seeded patch to /repo in turn, run the quick check of its property (and extra checks given in
seeded/EXTRA.json), undo, and record which checks report a VIOLATION. Writes seeded/RESULTS.json and updates meta.json."""
import json, os, subprocess, sys, glob
ROOT='/verif'
extra=json.load(open(f'{ROOT}/seeded/EXTRA.json')) if os.path.exists(f'{ROOT}/seeded/EXTRA.json') else {}
only=sys.argv[1:]
results=json.load(open(f'{ROOT}/seeded/RESULTS.json')) if os.path.exists(f'{ROOT}/seeded/RESULTS.json') else {}
head=subprocess.run(['git','-C','/repo','rev-parse','--short','HEAD'],capture_output=True,text=True).stdout.strip()
for d in sorted(glob.glob(f'{ROOT}/seeded/C*-*')):
    name=os.path.basename(d)
    if only and name not in only: continue
    prop=name.split('-')[0]
    checks=[prop]+[c for c in extra.get(name,[]) if c!=prop]
    ap=subprocess.run(['git','-C','/repo','apply',f'{d}/patch.diff'],capture_output=True,text=True)
    if ap.returncode!=0:
        results[name]={'applies':False,'note':ap.stderr.strip()[:200],'repo_head':head}
        print(name,'PATCH DOES NOT APPLY'); continue
    caught={}
    try:
        for c in checks:
            r=subprocess.run([f'{ROOT}/vf','check',c,'--tier','quick'],capture_output=True,text=True,cwd=ROOT)
            viol=[l for l in r.stdout.splitlines() if l.startswith('VIOLATION')]
            parts=sorted(set(l.split('replay=')[1].split('/')[-1].split('-s')[0] for l in viol))
            caught[c]={'exit':r.returncode,'violations':len(viol),'parts':parts}
    finally:
        subprocess.run(['git','-C','/repo','checkout','--','.'])
    results[name]={'applies':True,'repo_head':head,'checks':caught,'detected_by':[c for c,v in caught.items() if v['exit']==1]}
    print(name, results[name]['detected_by'] or 'MISSED')
    json.dump(results,open(f'{ROOT}/seeded/RESULTS.json','w'),indent=1,sort_keys=True)
