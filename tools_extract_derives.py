#!/usr/bin/env python3
"""Cut every #[derive(..o2o..)] item out of /repo/README.md and /repo/o2o-tests/tests/*.rs (at run time) and write
each one, without the derive line, as a seed file for the `text` fuzz target."""
import glob, hashlib, os, re, sys
out = sys.argv[1]
os.makedirs(out, exist_ok=True)
files = ['/repo/README.md'] + sorted(glob.glob('/repo/o2o-tests/tests/*.rs'))
n = 0
for f in files:
    text = open(f, errors='replace').read()
    for m in re.finditer(r'#\[derive\([^\]]*o2o[^\]]*\)\]', text):
        i = m.end()
        # scan to the end of the item: first top-level `;` or matching `}` after the struct/enum keyword
        depth = 0; j = i; seen_kw = False; started = False
        while j < len(text):
            c = text[j]
            if not seen_kw and re.match(r'\b(struct|enum|union)\b', text[j:j+6]):
                seen_kw = True
            if c in '([{':
                depth += 1
                if seen_kw and c == '{': started = True
            elif c in ')]}':
                depth -= 1
                if seen_kw and started and depth == 0 and c == '}':
                    j += 1; break
            elif c == ';' and depth == 0 and seen_kw:
                j += 1; break
            j += 1
        item = text[i:j].strip()
        item = re.sub(r'^\s*#\[derive\([^\]]*\)\]\s*', '', item)
        if 10 < len(item) < 4000:
            h = hashlib.sha1(item.encode()).hexdigest()[:12]
            open(os.path.join(out, f'seed-{h}'), 'w').write(item)
            n += 1
print(n, "seed items")
