#!/usr/bin/env python3
"""tools_known.py add <PROP> <SIG> <description...>  — promote a census example (work/census) to an open known finding.
   tools_known.py refresh — re-copy canonical inputs for all open findings from work/census (after generator changes)."""
import json, re, shutil, sys, os
ROOT='/verif'
def safe(sig): return re.sub(r'[^A-Za-z0-9_-]', '_', sig)
def copy(prop, sig):
    src=f'{ROOT}/work/census/{prop}-{safe(sig)}.json'
    dst=f'{ROOT}/known/{prop}-{safe(sig)}.json'
    os.makedirs(f'{ROOT}/known', exist_ok=True)
    if not os.path.exists(src):
        print("no census example for", prop, sig); return False
    shutil.copy(src, dst); return True
if sys.argv[1]=='add':
    prop, sig, desc = sys.argv[2], sys.argv[3], ' '.join(sys.argv[4:])
    if copy(prop, sig):
        lines=open(f'{ROOT}/known_findings.txt').read().splitlines()
        lines=[l for l in lines if not (l.startswith('KNOWN-FINDING:') and f'property={prop} ' in l and f'sig={sig} ' in l)]
        lines.append(f'KNOWN-FINDING: property={prop} sig={sig} {desc}')
        open(f'{ROOT}/known_findings.txt','w').write('\n'.join(lines)+'\n')
        print("added", prop, sig)
elif sys.argv[1]=='refresh':
    for l in open(f'{ROOT}/known_findings.txt'):
        m=re.match(r'KNOWN-FINDING: property=(\S+) sig=(\S+)', l)
        if m: print(m.group(1), m.group(2), copy(m.group(1), m.group(2)))
