// host crate: only exists so that cargo builds /repo's o2o + o2o-macros (proc-macro) for the e2e tier
