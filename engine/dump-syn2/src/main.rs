use syn2 as synx;
include!("../../vf-core/src/dump_common.rs");
