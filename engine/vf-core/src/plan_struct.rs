//! L2 mapping plans for structs: semantics first.  The generator draws the intended mapping (which
//! counterpart member receives which source member through which transformation, which members are
//! ghosts with which default), renders it into o2o instructions choosing among the documented
//! equivalent spellings (DESIGN.md appendix A), and — independently — into hand-written reference
//! functions.  The macro's own logic is never consulted.

use crate::dsl::*;
use crate::e2::E2Case;
use crate::tape::Tape;
use std::fmt::Write;

#[derive(Clone, Copy, Debug, PartialEq)]
pub enum ExprT {
    Id,
    Add(i64),
    MulSub(i64),
    Block(i64),
}

impl ExprT {
    pub fn is_id(self) -> bool {
        self == ExprT::Id
    }
    /// Rust expression over the value expression `v` (reference side).
    pub fn reference(self, v: &str) -> String {
        match self {
            ExprT::Id => v.to_string(),
            ExprT::Add(c) => format!("({} + {})", v, c),
            ExprT::MulSub(c) => format!("({} * 2 - {})", v, c),
            ExprT::Block(c) => format!("{{ let t = {}; t + {} }}", v, c),
        }
    }
    /// DSL action text; `ph` is the placeholder spelling for the source value (`~` or `@.member`).
    pub fn dsl(self, ph: &str) -> Option<String> {
        match self {
            ExprT::Id => None,
            ExprT::Add(c) => Some(format!("{} + {}", ph, c)),
            ExprT::MulSub(c) => Some(format!("{} * 2 - {}", ph, c)),
            // a block needs double braces: the outer pair is the action delimiter
            ExprT::Block(c) => Some(format!("{{{{ let t = {}; t + {} }}}}", ph, c)),
        }
    }
    pub fn gen(t: &mut Tape) -> ExprT {
        match t.weighted(&[5, 3, 2, 1]) {
            0 => ExprT::Id,
            1 => ExprT::Add(1 + t.below(9) as i64),
            2 => ExprT::MulSub(1 + t.below(9) as i64),
            _ => ExprT::Block(1 + t.below(9) as i64),
        }
    }
}

#[derive(Clone, Copy, Debug, PartialEq)]
pub enum DShape {
    Named,
    TupleStruct,
    BareTuple,
    Unit,
}

#[derive(Clone, Debug)]
pub enum DSrc {
    /// receives S field i
    FromS(usize),
    /// D-only member supplied by struct-level #[ghosts]; (owned value, ref value, reads self field)
    Ghosts { owned: i64, by_ref: i64, reads: Option<usize> },
    /// D-only member nobody mentions (into_existing must leave it alone; Into gets it from ..update)
    Unmentioned,
    /// receives S field `field` in conversions of one ownership; in the other (`ghost_owned_side`) the field is a
    /// ghost and the member is supplied by #[ghosts_owned] / #[ghosts_ref]
    FromSOrGhosts { field: usize, ghost_owned_side: bool, supply: i64 },
}

#[derive(Clone, Debug)]
pub struct DMember {
    /// identifier or index text
    pub name: String,
    pub ty: &'static str,
    pub src: DSrc,
}

#[derive(Clone, Debug)]
pub enum Role {
    Mapped { d: usize, from: ExprT, into: ExprT, cast: bool, at_spelling: bool },
    Ghost { owned: Option<i64>, by_ref: Option<i64> },
    /// `#[ghost_owned({c})]` alone (owned_side = true) or `#[ghost_ref({c})]` alone: a ghost for the conversions of one
    /// ownership only; the other ownership maps the member plainly to counterpart member `d`, which for the ghost
    /// ownership is supplied by #[ghosts_owned] / #[ghosts_ref] (value `supply`)
    GhostFor { owned_side: bool, default: i64, d: usize, supply: i64 },
}

#[derive(Clone, Debug)]
pub struct CpPlan {
    pub name: String,
    pub shape: DShape,
    pub hint: Option<Hint>,
    /// cells[fallible][kind]
    pub cells: [[bool; 6]; 2],
    pub roles: Vec<Role>,
    pub members: Vec<DMember>,
    /// Into instructions carry `..upd_<name>()`
    pub update: bool,
    /// From instructions carry `..upd_s_<name>()`: some ghost members of S have no default and take their value from it
    pub from_update: bool,
    pub form: &'static str,
}

impl CpPlan {
    pub fn has(&self, k: usize) -> bool {
        self.cells[0][k] || self.cells[1][k]
    }
    pub fn fallible(&self, k: usize) -> bool {
        self.cells[1][k]
    }
    pub fn ty_text(&self) -> String {
        match self.shape {
            DShape::BareTuple => format!("({})", self.members.iter().map(|m| format!("{},", m.ty)).collect::<Vec<_>>().join(" ")),
            _ => self.name.clone(),
        }
    }
}

#[derive(Clone, Debug)]
pub struct SField {
    pub name: String, // identifier or index
    pub ty: &'static str,
}

#[derive(Clone, Debug)]
pub struct StructPlan {
    pub shape: Shape,
    pub fields: Vec<SField>,
    pub cps: Vec<CpPlan>,
}

const SNAMES: [&str; 6] = ["a", "b", "c", "d", "e", "f"];
const DNAMES: [&str; 8] = ["x", "y", "z", "w", "p", "q", "r", "u"];

fn gen_cells(t: &mut Tape, allow_existing: bool) -> [[bool; 6]; 2] {
    // per group (from / into / into_existing) one fallibility (From<D> and TryFrom<D> cannot coexist on one pair)
    let mut cells = [[false; 6]; 2];
    let groups: [&[usize]; 3] = [&[FO, FR], &[OI, RI], &[OIE, RIE]];
    let mut any = false;
    for (gi, g) in groups.iter().enumerate() {
        if gi == 2 && !allow_existing {
            continue;
        }
        if !t.chance(3, 4) {
            continue;
        }
        let f = t.chance(1, 3) as usize;
        for k in g.iter() {
            if t.chance(3, 4) {
                cells[f][*k] = true;
                any = true;
            }
        }
    }
    if !any {
        cells[0][FO] = true;
    }
    cells
}

/// Draw a struct plan.
pub fn gen_plan(t: &mut Tape) -> StructPlan {
    let shape = match t.weighted(&[5, 3, 1]) {
        0 => Shape::Named,
        1 => Shape::Tuple,
        _ => Shape::Unit,
    };
    let nf = if shape == Shape::Unit { 0 } else { t.weighted(&[1, 3, 4, 4, 2, 1, 1]) };
    let fields: Vec<SField> = (0..nf).map(|i| SField { name: if shape == Shape::Named { SNAMES[i].to_string() } else { format!("{}", i) }, ty: if t.chance(1, 8) { "i32" } else { "i64" } }).collect();
    let ncp = 1 + t.weighted(&[5, 3, 1]);
    let mut plan = StructPlan { shape, fields, cps: vec![] };
    for ci in 0..ncp {
        let cp = gen_cp(t, &mut plan, ci, ncp);
        plan.cps.push(cp);
    }
    plan
}

fn gen_cp(t: &mut Tape, plan: &mut StructPlan, ci: usize, ncp: usize) -> CpPlan {
    let name = format!("D{}", ci);
    let nf = plan.fields.len();
    // mapping form compatible with S's shape (DESIGN.md appendix A rows)
    let form: &'static str = match plan.shape {
        Shape::Named => *t.pick(&["named->named", "named->named", "named->named{}", "named->tuple-struct(renames)", "named->tuple()", if ncp == 1 { "named->bare-tuple" } else { "named->tuple()" }, "->unit"]),
        Shape::Tuple => *t.pick(&["tuple->tuple", "tuple->tuple", "tuple->tuple()", "tuple->named{}", if ncp == 1 { "tuple->bare-tuple" } else { "tuple->tuple" }, "->unit"]),
        Shape::Unit => *t.pick(&["unit->unit", "->unit"]),
    };
    let (shape, hint) = match form {
        "named->named" => (DShape::Named, None),
        "named->named{}" => (DShape::Named, Some(Hint::Struct)),
        "named->tuple-struct(renames)" => (DShape::TupleStruct, None),
        "named->tuple()" => (DShape::TupleStruct, Some(Hint::Tuple)),
        "named->bare-tuple" | "tuple->bare-tuple" => (DShape::BareTuple, None),
        "tuple->tuple" => (DShape::TupleStruct, None),
        "tuple->tuple()" => (DShape::TupleStruct, Some(Hint::Tuple)),
        "tuple->named{}" => (DShape::Named, Some(Hint::Struct)),
        "unit->unit" => (DShape::Unit, None),
        _ => (DShape::Unit, Some(Hint::Unit)),
    };
    let positional = matches!(form, "named->tuple()" | "named->bare-tuple" | "tuple->bare-tuple" | "tuple->tuple" | "tuple->tuple()");
    let mut cells = gen_cells(t, shape != DShape::BareTuple || true);
    if form == "->unit" && nf > 0 {
        // every S field is a ghost; keep it to one direction family at a time (test 38 shape)
    }
    let has_from = cells[0][FO] || cells[0][FR] || cells[1][FO] || cells[1][FR];
    let has_into = cells[0][OI] || cells[0][RI] || cells[1][OI] || cells[1][RI];

    // roles
    let mut roles: Vec<Role> = vec![];
    let mut members: Vec<DMember> = vec![];
    let unit_target = shape == DShape::Unit;
    for i in 0..nf {
        // tuple S mapped positionally: only trailing ghosts (interior ghosts have no documented consistent meaning)
        let ghost_ok = if unit_target {
            true
        } else if positional && plan.shape == Shape::Tuple {
            false
        } else {
            true
        };
        let ghost = unit_target || (ghost_ok && t.chance(1, 6));
        if ghost {
            let need_default = has_from;
            let owned = if need_default || t.coin() { Some(100 + t.below(800) as i64) } else { None };
            let by_ref = if owned.is_some() && t.chance(1, 4) { Some(100 + t.below(800) as i64) } else { owned };
            roles.push(Role::Ghost { owned, by_ref });
        } else {
            // an i32 member is either cast to an i64 counterpart member (as_type) or mapped to an i32 one
            let cast = plan.fields[i].ty == "i32" && t.coin();
            let (from, into) = if cast { (ExprT::Id, ExprT::Id) } else { (ExprT::gen(t), ExprT::gen(t)) };
            roles.push(Role::Mapped { d: usize::MAX, from, into, cast, at_spelling: t.chance(1, 4) });
        }
    }
    if plan.shape == Shape::Tuple && positional {
        // trailing ghosts only
        let mut n_trailing = 0;
        if nf > 0 && t.chance(1, 4) {
            n_trailing = 1 + t.below(nf.min(2));
        }
        for i in nf - n_trailing..nf {
            let owned = Some(100 + t.below(800) as i64);
            roles[i] = Role::Ghost { owned, by_ref: owned };
        }
    }
    // a field that is cast for one counterpart has type i32 for all: fix roles of earlier counterparts is not needed
    // (exprs on i32 leaves stay in range), but as_type needs Id exprs on *this* counterpart only.

    // D members for mapped fields
    let mapped: Vec<usize> = (0..nf).filter(|i| matches!(roles[*i], Role::Mapped { .. })).collect();
    let mut order: Vec<usize> = (0..mapped.len()).collect();
    let permute = match form {
        "named->named" | "named->named{}" | "tuple->named{}" | "named->tuple-struct(renames)" => true,
        // positional targets: a permutation expressed through index renames (rare; README shows in-order indices)
        "named->tuple()" | "named->bare-tuple" => t.chance(1, 8),
        _ => false,
    };
    if permute {
        t.shuffle(&mut order);
    }
    // own-position arrangement (seeded change C01-10): behind a ghost member every mapped member's own position in S is ahead of
    // its in-order position in D, so in-order plans rename all of them. Here a mapped member whose own position exists in D sits
    // there and needs no index rename, and the members displaced by that fill the holes through index renames.
    let ghost_in_front = mapped.iter().any(|&fi| (0..fi).any(|j| matches!(roles[j], Role::Ghost { .. })));
    if matches!(form, "named->tuple()" | "named->bare-tuple") && ghost_in_front && mapped.len() >= 2 && t.chance(2, 3) {
        let n = mapped.len();
        let mut slot: Vec<Option<usize>> = vec![None; n];
        let mut rest: Vec<usize> = vec![];
        for (mi, &fi) in mapped.iter().enumerate() {
            if fi < n && slot[fi].is_none() && t.chance(3, 4) {
                slot[fi] = Some(mi);
                // mostly a plain member: any instruction on it would carry the index (README "Tuples")
                if t.chance(3, 4) {
                    if let Role::Mapped { from, into, cast, .. } = &mut roles[fi] {
                        *from = ExprT::Id;
                        *into = ExprT::Id;
                        *cast = false;
                    }
                }
            } else {
                rest.push(mi);
            }
        }
        t.shuffle(&mut rest);
        let mut it = rest.into_iter();
        for s in slot.iter_mut() {
            if s.is_none() {
                *s = it.next();
            }
        }
        order = slot.into_iter().map(|x| x.unwrap()).collect();
    }
    // order[r] = which mapped field sits at D position r
    let mut pos_of = vec![0usize; mapped.len()];
    for (r, m) in order.iter().enumerate() {
        pos_of[*m] = r;
    }
    let named_target = shape == DShape::Named;
    for r in 0..mapped.len() {
        let fi = mapped[order[r]];
        let dname = if named_target {
            // same name (named S, no rename) or a different one
            if plan.shape == Shape::Named && !t.chance(1, 3) {
                plan.fields[fi].name.clone()
            } else {
                DNAMES[(r + ci) % 8].to_string()
            }
        } else {
            format!("{}", r)
        };
        let cast = matches!(roles[fi], Role::Mapped { cast: true, .. });
        members.push(DMember { name: dname, ty: if cast { "i64" } else { plan.fields[fi].ty }, src: DSrc::FromS(fi) });
        if let Role::Mapped { d, .. } = &mut roles[fi] {
            *d = r;
        }
    }
    // make named members unique
    if named_target {
        for i in 0..members.len() {
            let dup = (0..i).any(|j| members[j].name == members[i].name);
            if dup {
                members[i].name = format!("{}{}", members[i].name, i);
            }
        }
    }
    // D-only members
    let mut update = false;
    if !unit_target && form != "named->tuple-struct(renames)" {
        let n_extra = t.weighted(&[5, 2, 1]);
        for e in 0..n_extra {
            let idx = members.len();
            let dname = if named_target { format!("g{}", e) } else { format!("{}", idx) };
            let src = if has_into {
                if t.chance(1, 4) && named_target {
                    update = true;
                    DSrc::Unmentioned
                } else {
                    let o = 2000 + t.below(900) as i64;
                    let reads = if !mapped.is_empty() && t.chance(1, 3) { Some(mapped[t.below(mapped.len())]) } else { None };
                    DSrc::Ghosts { owned: o, by_ref: if t.chance(1, 4) { 2000 + t.below(900) as i64 } else { o }, reads }
                }
            } else if t.coin() {
                DSrc::Unmentioned
            } else {
                let o = 2000 + t.below(900) as i64;
                DSrc::Ghosts { owned: o, by_ref: o, reads: None }
            };
            let ty = match &src {
                DSrc::Ghosts { reads: Some(fi), .. } => plan.fields[*fi].ty,
                _ => "i64",
            };
            members.push(DMember { name: dname, ty, src });
        }
    }
    if matches!(form, "named->named" | "named->named{}") && t.chance(1, 3) {
        let cands: Vec<usize> = (0..nf)
            .filter(|i| match &roles[*i] {
                Role::Mapped { d, from, into, cast, .. } => from.is_id() && into.is_id() && !*cast && members[*d].name == plan.fields[*i].name && plan.fields[*i].ty == "i64",
                _ => false,
            })
            .collect();
        if !cands.is_empty() {
            let i = *t.pick(&cands);
            if let Role::Mapped { d, .. } = roles[i].clone() {
                let owned_side = t.coin();
                let supply = 4000 + t.below(900) as i64;
                roles[i] = Role::GhostFor { owned_side, default: 100 + t.below(800) as i64, d, supply };
                members[d].src = DSrc::FromSOrGhosts { field: i, ghost_owned_side: owned_side, supply };
            }
        }
    }
    if shape == DShape::BareTuple && members.is_empty() {
        // `()` is not a useful bare tuple: give it one ghost member
        members.push(DMember { name: "0".into(), ty: "i64", src: DSrc::Ghosts { owned: 2001, by_ref: 2001, reads: None } });
    }
    if shape == DShape::BareTuple {
        // IntoExisting<(..)> is fine; nothing special
    }
    if !has_into {
        update = false;
    }
    let _ = &mut cells;
    // From with struct update syntax: ghost members of a named S may then go without a default
    let mut from_update = false;
    if has_from && plan.shape == Shape::Named && !unit_target && roles.iter().any(|r| matches!(r, Role::Ghost { .. })) && t.chance(1, 2) {
        from_update = true;
        let mut stripped = false;
        for r in roles.iter_mut() {
            if let Role::Ghost { owned, by_ref } = r {
                if !stripped || t.coin() {
                    *owned = None;
                    *by_ref = None;
                    stripped = true;
                }
            }
        }
    }
    CpPlan { name, shape, hint, cells, roles, members, update, from_update, form }
}

// ------------------------------------------------------------------------------------------------
// Rendering: type definitions
// ------------------------------------------------------------------------------------------------

const DERIVES: &str = "#[derive(Debug, Clone, PartialEq)]";

fn s_def(plan: &StructPlan, attrs_type: &str, field_attrs: &[String]) -> String {
    let mut s = String::new();
    s.push_str(attrs_type);
    match plan.shape {
        Shape::Named => {
            s.push_str("pub struct S { ");
            for (i, f) in plan.fields.iter().enumerate() {
                let _ = write!(s, "{} pub {}: {}, ", field_attrs.get(i).map(|x| x.as_str()).unwrap_or(""), f.name, f.ty);
            }
            s.push('}');
        }
        Shape::Tuple => {
            s.push_str("pub struct S(");
            for (i, f) in plan.fields.iter().enumerate() {
                let _ = write!(s, "{} pub {}, ", field_attrs.get(i).map(|x| x.as_str()).unwrap_or(""), f.ty);
            }
            s.push_str(");");
        }
        Shape::Unit => s.push_str("pub struct S;"),
    }
    s
}

fn d_def(cp: &CpPlan) -> String {
    match cp.shape {
        DShape::Named => format!("{} pub struct {} {{ {} }}", DERIVES, cp.name, cp.members.iter().map(|m| format!("pub {}: {},", m.name, m.ty)).collect::<Vec<_>>().join(" ")),
        DShape::TupleStruct => format!("{} pub struct {}({});", DERIVES, cp.name, cp.members.iter().map(|m| format!("pub {},", m.ty)).collect::<Vec<_>>().join(" ")),
        DShape::Unit => format!("{} pub struct {};", DERIVES, cp.name),
        DShape::BareTuple => String::new(),
    }
}

/// Literal constructor of D from per-member value expressions.
fn d_lit(cp: &CpPlan, vals: &[String]) -> String {
    match cp.shape {
        DShape::Named => format!("{} {{ {} }}", cp.name, cp.members.iter().zip(vals).map(|(m, v)| format!("{}: {}", m.name, v)).collect::<Vec<_>>().join(", ")),
        DShape::TupleStruct => format!("{}({})", cp.name, vals.iter().map(|v| format!("{},", v)).collect::<Vec<_>>().join(" ")),
        DShape::BareTuple => format!("({})", vals.iter().map(|v| format!("{},", v)).collect::<Vec<_>>().join(" ")),
        DShape::Unit => cp.name.clone(),
    }
}

fn s_lit(plan: &StructPlan, vals: &[String]) -> String {
    match plan.shape {
        Shape::Named => format!("S {{ {} }}", plan.fields.iter().zip(vals).map(|(f, v)| format!("{}: {}", f.name, v)).collect::<Vec<_>>().join(", ")),
        Shape::Tuple => format!("S({})", vals.iter().map(|v| format!("{},", v)).collect::<Vec<_>>().join(" ")),
        Shape::Unit => "S".into(),
    }
}

// ------------------------------------------------------------------------------------------------
// Rendering: o2o instructions
// ------------------------------------------------------------------------------------------------

/// Member instructions (without dedication) for S field `i` under counterpart `cp`.
fn field_instrs(t: &mut Tape, plan: &StructPlan, cp: &CpPlan, i: usize, plain_names: bool, labels: &mut Vec<String>) -> Vec<Instr> {
    let own = &plan.fields[i].name;
    match &cp.roles[i] {
        Role::Ghost { owned, by_ref } => {
            labels.push("role:ghost".into());
            match (owned, by_ref) {
                (None, _) => vec![Instr::Ghost { name: "ghost".into(), ded: None, action: None }],
                (Some(o), Some(r)) if o == r => vec![Instr::Ghost { name: "ghost".into(), ded: None, action: Some(format!("{{ {} }}", o)) }],
                (Some(o), r) => {
                    labels.push("role:ghost-owned/ref".into());
                    vec![Instr::Ghost { name: "ghost_owned".into(), ded: None, action: Some(format!("{{ {} }}", o)) }, Instr::Ghost { name: "ghost_ref".into(), ded: None, action: Some(format!("{{ {} }}", r.unwrap_or(*o))) }]
                }
            }
        }
        Role::GhostFor { owned_side, default, .. } => {
            labels.push("role:ghost-single-ownership".into());
            vec![Instr::Ghost { name: if *owned_side { "ghost_owned".into() } else { "ghost_ref".into() }, ded: None, action: Some(format!("{{ {} }}", default)) }]
        }
        Role::Mapped { d, from, into, cast, at_spelling } => {
            let dm = &cp.members[*d];
            // the member a field maps to when nothing is said: same name, or (positional / tuple-form targets) the
            // field's own position in S
            let positional_target = matches!(cp.form, "named->tuple()" | "named->bare-tuple");
            let default_member = if positional_target { format!("{}", i) } else { own.clone() };
            // README "Tuples": an instruction on a named member facing a positional target always carries the index
            let rename = dm.name != default_member || (positional_target && (t.chance(1, 3) || !from.is_id() || !into.is_id() || *cast));
            if positional_target && !rename && (0..i).any(|j| matches!(cp.roles[j], Role::Ghost { .. } | Role::GhostFor { .. })) {
                labels.push("positional:own-position-behind-ghost".into());
            }
            if *cast {
                labels.push("role:as_type".into());
                return vec![Instr::AsType { ded: None, member: if rename || t.chance(1, 4) { Some(dm.name.clone()) } else { None }, ty: "i64".into() }];
            }
            if !rename && from.is_id() && into.is_id() {
                // tuple S facing `as {}` needs the name even when ... (rename is always true there); plain field
                return vec![];
            }
            if rename {
                labels.push(if dm.name.chars().all(|c| c.is_ascii_digit()) { "role:rename-index".into() } else { "role:rename-ident".into() });
            }
            if !from.is_id() || !into.is_id() {
                labels.push("role:expression".into());
            }
            // placeholders: `~` or `@.member`
            let from_ph = if *at_spelling { format!("@.{}", dm.name) } else { "~".to_string() };
            let into_ph = if *at_spelling { format!("@.{}", own) } else { "~".to_string() };
            let member = if rename { Some(dm.name.clone()) } else { None };
            let from_args = (member.clone(), from.dsl(&from_ph));
            let into_args = (member.clone(), into.dsl(&into_ph));
            let need_from = cp.has(FO) || cp.has(FR);
            let need_into = cp.has(OI) || cp.has(RI) || cp.has(OIE) || cp.has(RIE);
            let mk = |name: String, a: &(Option<String>, Option<String>)| -> Option<Instr> {
                if a.0.is_none() && a.1.is_none() {
                    None
                } else {
                    Some(Instr::Member(MemberInstr { name, ded: None, member: a.0.clone(), action: a.1.clone() }))
                }
            };
            // fallible groups may use try_ names (exact level) or the infallible ones (fallback level)
            let pre = |t: &mut Tape, base: &str, kinds: &[usize]| -> String {
                let fall = kinds.iter().any(|k| cp.cells[1][*k]) && !kinds.iter().any(|k| cp.cells[0][*k]);
                if fall && !plain_names && t.coin() && !base.contains("existing") {
                    match base {
                        "owned_into" => "owned_try_into".into(),
                        "ref_into" => "ref_try_into".into(),
                        b => format!("try_{}", b),
                    }
                } else {
                    base.to_string()
                }
            };
            let mut out = vec![];
            let same = from_args == into_args && *at_spelling == false;
            let strategy = t.below(4);
            if same && need_from && need_into && strategy == 0 {
                labels.push("spelling:map".into());
                let n = pre(t, "map", &[FO, FR, OI, RI, OIE, RIE]);
                out.extend(mk(n, &from_args));
            } else if same && need_from && need_into && strategy == 1 {
                labels.push("spelling:map_owned+map_ref".into());
                let n1 = pre(t, "map_owned", &[FO, OI, OIE]);
                let n2 = pre(t, "map_ref", &[FR, RI, RIE]);
                out.extend(mk(n1, &from_args));
                out.extend(mk(n2, &from_args));
            } else if strategy == 2 {
                labels.push("spelling:basic-names".into());
                if need_from {
                    let n1 = pre(t, "from_owned", &[FO]);
                    let n2 = pre(t, "from_ref", &[FR]);
                    out.extend(mk(n1, &from_args));
                    out.extend(mk(n2, &from_args));
                }
                if need_into {
                    let n1 = pre(t, "owned_into", &[OI, OIE]);
                    let n2 = pre(t, "ref_into", &[RI, RIE]);
                    out.extend(mk(n1, &into_args));
                    out.extend(mk(n2, &into_args));
                    if (cp.has(OIE) || cp.has(RIE)) && !plain_names && t.coin() {
                        out.extend(mk("into_existing".into(), &into_args));
                    }
                }
            } else {
                labels.push("spelling:from+into".into());
                if need_from {
                    let n = pre(t, "from", &[FO, FR]);
                    out.extend(mk(n, &from_args));
                }
                if need_into {
                    let n = pre(t, "into", &[OI, RI, OIE, RIE]);
                    out.extend(mk(n, &into_args));
                }
            }
            t.shuffle(&mut out);
            out
        }
    }
}

fn ded_of(mut i: Instr, ded: &str) -> Instr {
    match &mut i {
        Instr::Member(m) => m.ded = Some(ded.to_string()),
        Instr::Ghost { ded: d, .. } | Instr::AsType { ded: d, .. } => *d = Some(ded.to_string()),
        _ => {}
    }
    i
}

fn trait_instrs(t: &mut Tape, cp: &CpPlan, labels: &mut Vec<String>) -> Vec<Instr> {
    let mut out = vec![];
    for f in 0..2 {
        if !cp.cells[f].iter().any(|x| *x) {
            continue;
        }
        let names: Vec<String> = if cp.update || cp.from_update {
            // `..upd()` must sit on instructions that only produce Into impls: cover the three groups separately
            let mut v = vec![];
            for group in [[FO, FR], [OI, RI], [OIE, RIE]] {
                let mut cells = [false; 6];
                for k in group {
                    cells[k] = cp.cells[f][k];
                }
                if cells.iter().any(|x| *x) {
                    v.extend(crate::gen::cover_cells(t, cells, f == 1));
                }
            }
            v
        } else {
            crate::gen::cover_cells(t, cp.cells[f], f == 1)
        };
        for name in names {
            let (ks, _) = trait_name_cells(&name).unwrap();
            let mut params = vec![];
            if cp.update && ks.iter().any(|k| *k == OI || *k == RI) && !name.contains("existing") {
                params.push(TParam::Update(format!("upd_{}()", cp.name)));
            }
            if cp.from_update && ks.iter().any(|k| *k == FO || *k == FR) {
                params.push(TParam::Update(format!("upd_s_{}()", cp.name)));
            }
            if ks.len() > 1 {
                labels.push("trait-shortcut".into());
            }
            out.push(Instr::Trait(TraitInstr { name, ty: cp.ty_text(), hint: cp.hint, err: if f == 1 { Some("E".into()) } else { None }, params }));
        }
    }
    out
}

fn ghosts_instrs(cp: &CpPlan, plan: &StructPlan, ded: Option<String>, labels: &mut Vec<String>) -> Vec<Instr> {
    let has_into_like = cp.has(OI) || cp.has(RI) || cp.has(OIE) || cp.has(RIE);
    if !has_into_like {
        return vec![];
    }
    let val = |c: i64, reads: Option<usize>| match reads {
        Some(fi) => format!("@.{} + {}", plan.fields[fi].name, c),
        None => format!("{}", c),
    };
    let mut owned_entries: Vec<GhostEntry> = vec![];
    let mut ref_entries: Vec<GhostEntry> = vec![];
    for m in &cp.members {
        match &m.src {
            DSrc::Ghosts { owned, by_ref, reads } => {
                owned_entries.push(GhostEntry { child_path: None, ident: m.name.clone(), action: val(*owned, *reads) });
                ref_entries.push(GhostEntry { child_path: None, ident: m.name.clone(), action: val(*by_ref, *reads) });
            }
            DSrc::FromSOrGhosts { ghost_owned_side, supply, .. } => {
                let e = GhostEntry { child_path: None, ident: m.name.clone(), action: format!("{}", supply) };
                if *ghost_owned_side {
                    owned_entries.push(e);
                } else {
                    ref_entries.push(e);
                }
            }
            _ => {}
        }
    }
    if owned_entries.is_empty() && ref_entries.is_empty() {
        return vec![];
    }
    labels.push("ghosts".into());
    if owned_entries == ref_entries {
        vec![Instr::Ghosts { name: "ghosts".into(), ded, entries: owned_entries }]
    } else {
        labels.push("ghosts:owned/ref".into());
        let mut out = vec![];
        if !owned_entries.is_empty() {
            out.push(Instr::Ghosts { name: "ghosts_owned".into(), ded: ded.clone(), entries: owned_entries });
        }
        if !ref_entries.is_empty() {
            out.push(Instr::Ghosts { name: "ghosts_ref".into(), ded, entries: ref_entries });
        }
        out
    }
}

// ------------------------------------------------------------------------------------------------
// Rendering: reference functions and run()
// ------------------------------------------------------------------------------------------------

fn acc(obj: &str, member: &str) -> String {
    format!("{}.{}", obj, member)
}

/// `fn ref_from_<D>(value: &D, owned: bool) -> S`
fn ref_from(plan: &StructPlan, cp: &CpPlan) -> String {
    let mut vals = vec![];
    for (i, f) in plan.fields.iter().enumerate() {
        let v = match &cp.roles[i] {
            Role::Ghost { owned: None, .. } if cp.from_update => format!("{}", -(7700 + i as i64)),
            Role::Ghost { owned, by_ref } => format!("if owned {{ {} }} else {{ {} }}", owned.unwrap_or(0), by_ref.or(*owned).unwrap_or(0)),
            Role::GhostFor { owned_side, default, d, .. } => {
                let src = acc("value", &cp.members[*d].name);
                if *owned_side {
                    format!("if owned {{ {} }} else {{ {} }}", default, src)
                } else {
                    format!("if owned {{ {} }} else {{ {} }}", src, default)
                }
            }
            Role::Mapped { d, from, cast, .. } => {
                let src = acc("value", &cp.members[*d].name);
                if *cast {
                    format!("({} as {})", src, f.ty)
                } else {
                    from.reference(&src)
                }
            }
        };
        vals.push(v);
    }
    format!("pub fn ref_from_{}(value: &{}, owned: bool) -> S {{ let _ = owned; {} }}", cp.name, cp.ty_text(), s_lit(plan, &vals))
}

fn into_value(plan: &StructPlan, cp: &CpPlan, m: &DMember) -> Option<String> {
    match &m.src {
        DSrc::FromS(fi) => {
            let src = acc("s", &plan.fields[*fi].name);
            match &cp.roles[*fi] {
                Role::Mapped { into, cast, .. } => Some(if *cast { format!("({} as {})", src, m.ty) } else { into.reference(&src) }),
                _ => None,
            }
        }
        DSrc::Ghosts { owned, by_ref, reads } => {
            let base = format!("(if owned {{ {} }} else {{ {} }})", owned, by_ref);
            Some(match reads {
                Some(fi) => format!("({} + {})", acc("s", &plan.fields[*fi].name), base),
                None => base,
            })
        }
        DSrc::Unmentioned => None,
        DSrc::FromSOrGhosts { field, ghost_owned_side, supply } => {
            let src = acc("s", &plan.fields[*field].name);
            Some(if *ghost_owned_side { format!("(if owned {{ {} }} else {{ {} }})", supply, src) } else { format!("(if owned {{ {} }} else {{ {} }})", src, supply) })
        }
    }
}

/// `fn ref_into_<D>(s: &S, owned: bool) -> D` and `fn ref_into_existing_<D>(s: &S, other: &mut D, owned: bool)`
fn ref_into(plan: &StructPlan, cp: &CpPlan) -> String {
    let mut out = String::new();
    let vals: Vec<String> = cp.members.iter().enumerate().map(|(j, m)| into_value(plan, cp, m).unwrap_or_else(|| acc(&format!("upd_{}()", cp.name), &m.name)).replace("__J__", &j.to_string())).collect();
    let _ = write!(out, "pub fn ref_into_{}(s: &S, owned: bool) -> {} {{ let _ = (s, owned); {} }}\n", cp.name, cp.ty_text(), d_lit(cp, &vals));
    let mut body = String::new();
    for m in &cp.members {
        if let Some(v) = into_value(plan, cp, m) {
            let _ = write!(body, "other.{} = {}; ", m.name, v);
        }
    }
    let _ = write!(out, "pub fn ref_into_existing_{}(s: &S, other: &mut {}, owned: bool) {{ let _ = (s, owned, &other); {} }}\n", cp.name, cp.ty_text(), body);
    out
}

pub struct Rendered {
    pub case: E2Case,
}

/// Render a plan into an E2 case.  `core_only` restricts the run side to `core` (for #![no_std] type-checking).
pub fn render(t: &mut Tape, plan: &StructPlan, core_only: bool) -> E2Case {
    let mut labels: Vec<String> = vec![format!("S:{:?}", plan.shape), format!("fields:{}", plan.fields.len()), format!("counterparts:{}", plan.cps.len())];
    let mut facts: Vec<String> = vec![];
    let ncp = plan.cps.len();

    // --- instructions -------------------------------------------------------------------------
    let mut type_instrs: Vec<Instr> = vec![];
    for cp in &plan.cps {
        labels.push(format!("form:{}", cp.form));
        facts.push(format!("form:{}", cp.form));
        if cp.update {
            labels.push("update".into());
        }
        if cp.from_update {
            labels.push("from-update".into());
        }
        type_instrs.extend(trait_instrs(t, cp, &mut labels));
        let ded = if ncp > 1 || (cp.shape != DShape::BareTuple && t.chance(1, 5)) { Some(cp.ty_text()) } else { None };
        type_instrs.extend(ghosts_instrs(cp, plan, ded, &mut labels));
    }
    if t.chance(1, 3) {
        t.shuffle(&mut type_instrs);
    }
    let mut field_attr_texts: Vec<String> = vec![];
    for i in 0..plan.fields.len() {
        // with several counterparts: either everything dedicated / shared (any spelling), or the mixed form
        // "default instructions for one counterpart + dedicated instructions for the others" (README "Mapping to
        // multiple structs"); in the mixed form every instruction uses the plain names so that dedicated and default
        // instructions compete at the same precedence level (dedicated must win whatever the order)
        let mixed = ncp > 1 && plan.cps.iter().all(|c| c.shape != DShape::BareTuple) && t.chance(1, 2);
        let per_cp: Vec<Vec<Instr>> = plan.cps.iter().map(|cp| field_instrs(t, plan, cp, i, mixed, &mut labels)).collect();
        let mut instrs: Vec<Instr> = vec![];
        let all_equal = per_cp.iter().all(|x| x.iter().map(|i| i.render()).collect::<Vec<_>>() == per_cp[0].iter().map(|i| i.render()).collect::<Vec<_>>());
        if ncp == 1 {
            let ded = plan.cps[0].shape != DShape::BareTuple && t.chance(1, 5);
            for ins in per_cp[0].iter().cloned() {
                instrs.push(if ded { ded_of(ins, &plan.cps[0].ty_text()) } else { ins });
            }
            if ded && !per_cp[0].is_empty() {
                labels.push("dedicated".into());
            }
        } else if all_equal && t.chance(3, 4) {
            instrs.extend(per_cp[0].iter().cloned());
            if !per_cp[0].is_empty() {
                labels.push("default-shared-by-counterparts".into());
            }
        } else if mixed && per_cp.iter().all(|l| l.iter().all(|i| matches!(i, Instr::Member(_)))) {
            // counterpart `dflt` speaks through default instructions; every other counterpart gets dedicated instructions
            // that cover all of its kinds (a plain role is written out as a rename to the member's own name)
            let dflt = t.below(ncp);
            let mut default_part: Vec<Instr> = per_cp[dflt].clone();
            let mut dedicated_part: Vec<Instr> = vec![];
            for (ci, list) in per_cp.iter().enumerate() {
                if ci == dflt {
                    continue;
                }
                let cp = &plan.cps[ci];
                let list: Vec<Instr> = if list.is_empty() && !default_part.is_empty() {
                    // explicit plain mapping: same member, no expression
                    let own = match &cp.roles[i] {
                        Role::Mapped { d, .. } => cp.members[*d].name.clone(),
                        _ => plan.fields[i].name.clone(),
                    };
                    vec![Instr::Member(MemberInstr { name: "map".into(), ded: None, member: Some(own), action: None })]
                } else {
                    list.clone()
                };
                for ins in list {
                    dedicated_part.push(ded_of(ins, &cp.ty_text()));
                }
            }
            // one-sided instruction sets (e.g. only `from`) leave the other direction of a dedicated counterpart to the
            // default instruction: complete them so that the dedicated counterpart never falls back to the default one
            let covers = |list: &Vec<Instr>, ty: &str, from_side: bool| -> bool {
                list.iter().any(|i| if let Instr::Member(m) = i { m.ded.as_deref() == Some(ty) && trait_name_cells(&m.name).map_or(false, |c| c.0.iter().any(|k| if from_side { *k == FO || *k == FR } else { *k == OI || *k == RI })) } else { false })
            };
            let default_has = |from_side: bool| default_part.iter().any(|i| if let Instr::Member(m) = i { trait_name_cells(&m.name).map_or(false, |c| c.0.iter().any(|k| if from_side { *k == FO || *k == FR } else { *k == OI || *k == RI })) } else { false });
            for (ci, cp) in plan.cps.iter().enumerate() {
                if ci == dflt {
                    continue;
                }
                let ty = cp.ty_text();
                for from_side in [true, false] {
                    let needed = if from_side { cp.has(FO) || cp.has(FR) } else { cp.has(OI) || cp.has(RI) || cp.has(OIE) || cp.has(RIE) };
                    if needed && default_has(from_side) && !covers(&dedicated_part, &ty, from_side) {
                        let own = match &cp.roles[i] {
                            Role::Mapped { d, .. } => cp.members[*d].name.clone(),
                            _ => plan.fields[i].name.clone(),
                        };
                        dedicated_part.push(Instr::Member(MemberInstr { name: if from_side { "from".into() } else { "into".into() }, ded: Some(ty.clone()), member: Some(own), action: None }));
                    }
                }
            }
            labels.push("default+dedicated-mixed".into());
            // default first (the order a "first match" implementation gets wrong), or random
            if t.chance(2, 3) {
                instrs.append(&mut default_part);
                instrs.append(&mut dedicated_part);
            } else {
                instrs.append(&mut dedicated_part);
                instrs.append(&mut default_part);
            }
        } else {
            for (ci, list) in per_cp.iter().enumerate() {
                // a counterpart with a plain role still needs nothing: other counterparts' instructions are dedicated
                for ins in list.iter().cloned() {
                    instrs.push(ded_of(ins, &plan.cps[ci].ty_text()));
                    labels.push("dedicated".into());
                }
            }
        }
        let attrs: Vec<String> = instrs.into_iter().map(|i| if t.chance(1, 5) { Attr::wrapped(vec![i]).render() } else { Attr::auto(i).render() }).collect();
        field_attr_texts.push(attrs.join(" "));
    }
    let type_attr_text: String = type_instrs.into_iter().map(|i| format!("{}\n", if t.chance(1, 6) { Attr::wrapped(vec![i]).render() } else { Attr::auto(i).render() })).collect();
    let derive_input = s_def(plan, &type_attr_text, &field_attr_texts);

    // --- harness ------------------------------------------------------------------------------
    let mut h = String::new();
    h.push_str("#[derive(Debug, Clone, PartialEq)] pub struct E(pub i64);\n");
    let _ = write!(h, "{}\n", s_def(plan, &format!("{}\n", DERIVES), &[]));
    for cp in &plan.cps {
        let _ = write!(h, "{}\n", d_def(cp));
        // sentinel-filled value: pre-existing destination and `..upd()` source
        let sent: Vec<String> = (0..cp.members.len()).map(|j| format!("{}", -(7000 + 13 * j as i64))).collect();
        let _ = write!(h, "pub fn upd_{}() -> {} {{ {} }}\n", cp.name, cp.ty_text(), d_lit(cp, &sent));
        let dvals: Vec<String> = (0..cp.members.len()).map(|j| format!("{}", 5000 + 41 * j as i64 + (t.below(30) as i64))).collect();
        let _ = write!(h, "pub fn mk_{}() -> {} {{ {} }}\n", cp.name, cp.ty_text(), d_lit(cp, &dvals));
        if cp.from_update {
            let sent: Vec<String> = (0..plan.fields.len()).map(|i| format!("{}", -(7700 + i as i64))).collect();
            let _ = write!(h, "pub fn upd_s_{}() -> S {{ {} }}\n", cp.name, s_lit(plan, &sent));
        }
        if cp.has(FO) || cp.has(FR) {
            let _ = write!(h, "{}\n", ref_from(plan, cp));
        }
        if cp.has(OI) || cp.has(RI) || cp.has(OIE) || cp.has(RIE) {
            h.push_str(&ref_into(plan, cp));
        }
    }
    let svals: Vec<String> = (0..plan.fields.len()).map(|i| format!("{}", 1000 + 37 * i as i64 + (t.below(30) as i64))).collect();
    let _ = write!(h, "pub fn mk_s() -> S {{ {} }}\n", s_lit(plan, &svals));

    // --- run ----------------------------------------------------------------------------------
    let mut r = String::new();
    if core_only {
        // type-check only: every conversion is used once, through core paths
        r.push_str("fn same<T>(_a: &T, _b: &T) {}\npub fn run() {\n");
    } else {
        r.push_str("fn chk<T: core::fmt::Debug + PartialEq>(out: &mut Vec<String>, fl: &str, got: &T, want: &T) { if got == want { out.push(format!(\"{} OK\", fl)); } else { out.push(format!(\"{} MISMATCH got={:?} want={:?}\", fl, got, want)); } }\n");
        r.push_str("pub fn run(out: &mut Vec<String>) {\n");
    }
    let mut nflav = 0;
    for cp in &plan.cps {
        let d = cp.ty_text();
        let n = &cp.name;
        for (k, f) in [(FO, false), (FR, false), (OI, false), (RI, false), (OIE, false), (RIE, false), (FO, true), (FR, true), (OI, true), (RI, true), (OIE, true), (RIE, true)] {
            if !cp.cells[f as usize][k] {
                continue;
            }
            nflav += 1;
            let fl = format!("{}:{}", n, basic_name(k, f));
            let owned = k == FO || k == OI || k == OIE;
            let stmt = match (k, f) {
                (FO, false) => format!("let got: S = ::core::convert::From::from(mk_{n}()); let want = ref_from_{n}(&mk_{n}(), true);"),
                (FR, false) => format!("let src = mk_{n}(); let got: S = ::core::convert::From::from(&src); let want = ref_from_{n}(&src, false);"),
                (FO, true) => format!("let got: ::core::result::Result<S, E> = ::core::convert::TryFrom::try_from(mk_{n}()); let want: ::core::result::Result<S, E> = Ok(ref_from_{n}(&mk_{n}(), true));"),
                (FR, true) => format!("let src = mk_{n}(); let got: ::core::result::Result<S, E> = ::core::convert::TryFrom::try_from(&src); let want: ::core::result::Result<S, E> = Ok(ref_from_{n}(&src, false));"),
                (OI, false) => format!("let got: {d} = ::core::convert::Into::into(mk_s()); let want = ref_into_{n}(&mk_s(), true);"),
                (RI, false) => format!("let src = mk_s(); let got: {d} = ::core::convert::Into::into(&src); let want = ref_into_{n}(&src, false);"),
                (OI, true) => format!("let got: ::core::result::Result<{d}, E> = ::core::convert::TryInto::try_into(mk_s()); let want: ::core::result::Result<{d}, E> = Ok(ref_into_{n}(&mk_s(), true));"),
                (RI, true) => format!("let src = mk_s(); let got: ::core::result::Result<{d}, E> = ::core::convert::TryInto::try_into(&src); let want: ::core::result::Result<{d}, E> = Ok(ref_into_{n}(&src, false));"),
                (OIE, false) => format!("let mut got = upd_{n}(); o2o::traits::IntoExisting::into_existing(mk_s(), &mut got); let mut want = upd_{n}(); ref_into_existing_{n}(&mk_s(), &mut want, true);"),
                (RIE, false) => format!("let src = mk_s(); let mut got = upd_{n}(); o2o::traits::IntoExisting::into_existing(&src, &mut got); let mut want = upd_{n}(); ref_into_existing_{n}(&src, &mut want, false);"),
                (OIE, true) => format!("let mut g = upd_{n}(); let r: ::core::result::Result<(), E> = o2o::traits::TryIntoExisting::try_into_existing(mk_s(), &mut g); let got = (r, g); let mut w = upd_{n}(); ref_into_existing_{n}(&mk_s(), &mut w, true); let want = (Ok(()), w);"),
                (RIE, true) => format!("let src = mk_s(); let mut g = upd_{n}(); let r: ::core::result::Result<(), E> = o2o::traits::TryIntoExisting::try_into_existing(&src, &mut g); let got = (r, g); let mut w = upd_{n}(); ref_into_existing_{n}(&src, &mut w, false); let want = (Ok(()), w);"),
                _ => unreachable!(),
            };
            let _ = owned;
            if core_only {
                let _ = write!(r, "    {{ {} same(&got, &want); }}\n", stmt);
            } else {
                let _ = write!(r, "    {{ {} chk(out, \"{}\", &got, &want); }}\n", stmt, fl);
            }
        }
    }
    r.push_str("}\n");
    labels.push(format!("flavours-requested:{}", nflav.min(12)));

    // non-trivial: >= 2 fields and a non-default role, or shapes differ, or a hint is present
    let non_default_role = labels.iter().any(|l| l.starts_with("role:") || l == "ghosts");
    let shapes_differ = plan.cps.iter().any(|c| !matches!((plan.shape, c.shape), (Shape::Named, DShape::Named) | (Shape::Tuple, DShape::TupleStruct) | (Shape::Unit, DShape::Unit)));
    let hint = plan.cps.iter().any(|c| c.hint.is_some());
    let nontrivial = (plan.fields.len() >= 2 && non_default_role) || shapes_differ || hint;

    // facts for known-finding matchers
    for cp in &plan.cps {
        let positional = matches!(cp.form, "named->tuple()" | "named->bare-tuple" | "tuple->bare-tuple" | "tuple->tuple" | "tuple->tuple()");
        let permuted = cp.roles.iter().enumerate().any(|(i, r)| if let Role::Mapped { d, .. } = r { positional && plan.shape == Shape::Named && *d != cp.roles[..i].iter().filter(|x| matches!(x, Role::Mapped { .. })).count() } else { false });
        if permuted {
            facts.push("positional-target-with-index-permutation".into());
        }
        let interior_ghost = {
            let mut seen_ghost = false;
            let mut interior = false;
            for r in &cp.roles {
                match r {
                    Role::Ghost { .. } | Role::GhostFor { .. } => seen_ghost = true,
                    Role::Mapped { .. } => {
                        if seen_ghost {
                            interior = true
                        }
                    }
                }
            }
            interior
        };
        if interior_ghost && positional {
            facts.push("positional-target-with-interior-ghost".into());
        }
        if cp.shape == DShape::Unit && cp.hint == Some(Hint::Unit) {
            facts.push("as-unit".into());
        }
    }

    E2Case { harness_src: h, derives: vec![derive_input.clone()], run_src: r, key: derive_input, labels, nontrivial, facts }
}
