//! Oracles shared with the libFuzzer targets (fuzz/fuzz_targets): the same generators and oracles as the
//! proptest parts, driven by coverage-guided byte mutation.

use crate::known::Known;
use crate::runner::{Ctx, Part, Verdict};
use crate::tape::bytes_to_tape;
use std::sync::OnceLock;

static KNOWN: OnceLock<Known> = OnceLock::new();

fn known() -> &'static Known {
    KNOWN.get_or_init(Known::load)
}

fn strict() -> bool {
    std::env::var("VF_FUZZ_STRICT").map_or(false, |v| v == "1")
}

/// Which (property, part) a tape-target input addresses: first byte modulo the table length.
pub fn tape_parts() -> Vec<Box<dyn Part>> {
    let mut v: Vec<Box<dyn Part>> = vec![];
    v.extend(crate::props::c16::parts());
    v.extend(crate::props::c17::parts());
    v.extend(crate::props::c19::parts());
    v
}

pub fn tape_oracle(data: &[u8]) -> Option<String> {
    tape_oracle_filtered(data)
}

pub fn text_oracle(text: &str) -> Option<String> {
    crate::xp::silence_panics();
    let ctx = Ctx { known: known(), strict: strict() };
    let a = crate::xp::expand(text);
    if let crate::xp::Outcome::NotAnItem(_) = a {
        return None;
    }
    let only = std::env::var("VF_FUZZ_PROP").ok();
    let wants = |p: &str| only.as_deref().map_or(true, |o| o == p);
    // C16 (a panic met in another property's campaign is C16's business and does not stop that campaign)
    if wants("C16") {
        let rep = crate::props::c16::judge(text.to_string(), vec![], &ctx);
        if let Verdict::Fail { msg, .. } = rep.verdict {
            return Some(format!("property=C16 part=text {}", msg));
        }
    }
    if !wants("C19") {
        return None;
    }
    // C19
    let b = crate::xp::expand(text);
    if a != b {
        return Some(format!("property=C19 part=text same input expanded differently: {} vs {}", a.short(), b.short()));
    }
    None
}

// ------------------------------------------------------------------------------------------------
// Campaign driver (thorough tier): cargo +nightly fuzz run with a fixed number of runs and seed
// ------------------------------------------------------------------------------------------------

use crate::runner::{seed32, write_replay, PartStats, Violation};
use proptest::strategy::{Strategy, ValueTree};
use proptest::test_runner::{Config, RngAlgorithm, TestRng, TestRunner};
use serde_json::json;
use std::process::Command;

fn prop_filter() -> Option<String> {
    std::env::var("VF_FUZZ_PROP").ok()
}

/// Parts addressed by the tape target, restricted to one property when VF_FUZZ_PROP is set.
pub fn tape_parts_filtered() -> Vec<Box<dyn Part>> {
    let all = tape_parts();
    match prop_filter() {
        Some(p) => all.into_iter().filter(|x| x.prop() == p).collect(),
        None => all,
    }
}

pub fn run_campaign(prop: &'static str, target: &str, runs: u64, seed: u64) -> Result<PartStats, String> {
    let root = crate::verif_root();
    let crate_dir = format!("{}/engine/vf-core", root);
    let build = Command::new("cargo").args(["+nightly", "fuzz", "build", "-O", "-s", "none"]).current_dir(&crate_dir).env("CARGO_NET_OFFLINE", "true").output().map_err(|e| format!("cannot run cargo fuzz: {}", e))?;
    if !build.status.success() {
        return Err(format!("cargo fuzz build failed: {}", String::from_utf8_lossy(&build.stderr).chars().rev().take(600).collect::<String>().chars().rev().collect::<String>()));
    }
    let dir = format!("{}/work/fuzz-{}-{}-{}", root, prop, target, std::process::id());
    let corpus = format!("{}/corpus", dir);
    let arts = format!("{}/artifacts/", dir);
    let _ = std::fs::remove_dir_all(&dir);
    std::fs::create_dir_all(&corpus).map_err(|e| e.to_string())?;
    std::fs::create_dir_all(&arts).map_err(|e| e.to_string())?;
    std::env::set_var("VF_FUZZ_PROP", prop);
    let parts = tape_parts_filtered();
    let mut seeds = 0;
    if target == "tape" {
        for (pi, p) in parts.iter().enumerate() {
            let rng = TestRng::from_seed(RngAlgorithm::ChaCha, &seed32(seed, prop, p.name(), 999));
            let mut runner = TestRunner::new_with_rng(Config::default(), rng);
            let strat = proptest::collection::vec(proptest::num::u16::ANY, 0..=p.max_tape());
            for i in 0..96 {
                let tape = strat.new_tree(&mut runner).map_err(|e| e.to_string())?.current();
                let mut bytes = vec![pi as u8];
                bytes.extend(crate::tape::tape_to_bytes(&tape));
                std::fs::write(format!("{}/seed-{}-{}", corpus, pi, i), bytes).map_err(|e| e.to_string())?;
                seeds += 1;
            }
        }
    } else {
        let out = Command::new("python3").arg(format!("{}/tools_extract_derives.py", root)).arg(&corpus).output().map_err(|e| e.to_string())?;
        seeds = String::from_utf8_lossy(&out.stdout).split_whitespace().next().and_then(|x| x.parse().ok()).unwrap_or(0);
    }
    // o2o has no unsafe code: no sanitizer, optimised build (about 5x the executions per second of the default ASan build).
    // The runs are split over WORKERS independent libFuzzer processes (own copy of the seed corpus, own seed), merged afterwards.
    const WORKERS: u64 = 8;
    let bin = format!("{}/engine/target/x86_64-unknown-linux-gnu/release/{}", root, target);
    let per_worker = (runs + WORKERS - 1) / WORKERS;
    let mut logs: Vec<(bool, String)> = vec![];
    std::thread::scope(|sc| {
        let mut hs = vec![];
        for w in 0..WORKERS {
            let wcorpus = format!("{}/corpus-w{}", dir, w);
            let (corpus, arts, bin, crate_dir) = (&corpus, &arts, &bin, &crate_dir);
            hs.push(sc.spawn(move || -> (bool, String) {
                let _ = std::fs::create_dir_all(&wcorpus);
                if let Ok(rd) = std::fs::read_dir(corpus) {
                    for e in rd.filter_map(|e| e.ok()) {
                        let _ = std::fs::copy(e.path(), format!("{}/{}", wcorpus, e.file_name().to_string_lossy()));
                    }
                }
                let out = Command::new(bin)
                    .arg(&wcorpus)
                    .arg(format!("-runs={}", per_worker))
                    .arg(format!("-seed={}", (seed % 400_000_000) * WORKERS + w + 1))
                    .args(["-len_control=0", "-max_len=1536", "-print_final_stats=1", "-timeout=30", "-rss_limit_mb=4096"])
                    .arg(format!("-artifact_prefix={}", arts))
                    .current_dir(crate_dir)
                    .env("VF_FUZZ_PROP", prop)
                    .output();
                match out {
                    Ok(o) => (o.status.success(), String::from_utf8_lossy(&o.stderr).to_string()),
                    Err(e) => (false, format!("cannot run the fuzz target: {}", e)),
                }
            }));
        }
        for h in hs {
            logs.push(h.join().unwrap_or((false, "worker thread panicked".into())));
        }
    });
    // merge the workers' corpora into the campaign corpus (by file name = content hash)
    for w in 0..WORKERS {
        if let Ok(rd) = std::fs::read_dir(format!("{}/corpus-w{}", dir, w)) {
            for e in rd.filter_map(|e| e.ok()) {
                let dst = format!("{}/{}", corpus, e.file_name().to_string_lossy());
                if !std::path::Path::new(&dst).exists() {
                    let _ = std::fs::copy(e.path(), dst);
                }
            }
        }
    }
    let all_ok = logs.iter().all(|l| l.0);
    let log: String = logs.iter().map(|l| l.1.clone()).collect::<Vec<_>>().join("\n");
    let stat = |key: &str| -> u64 { logs.iter().map(|l| l.1.lines().filter_map(|x| x.strip_prefix(key)).filter_map(|v| v.trim().parse::<u64>().ok()).last().unwrap_or(0)).sum() };
    let executed = stat("stat::number_of_executed_units:");
    let corpus_units = std::fs::read_dir(&corpus).map(|d| d.count()).unwrap_or(0) as u64;
    let mut st = PartStats { name: format!("libfuzzer-{}", target), ..Default::default() };
    st.rule = format!(
        "Coverage-guided libFuzzer campaign (target {} built with cargo +nightly fuzz build -O -s none; {} runs split over 8 parallel libFuzzer processes with seeds derived from VERIF_SEED, -len_control=0, fresh corpus seeded with {} inputs: {}); the oracle is inside the target (same generators / oracles as the proptest parts of this property; open known findings tolerated). evaluations = executed units; distinct_nontrivial = units in the final corpus (inputs that reached new coverage, beyond the seeds).",
        target,
        runs,
        seeds,
        if target == "tape" { "choice tapes of the first proptest cases of every part" } else { "every #[derive(o2o)] item cut out of /repo/README.md and /repo/o2o-tests at run time" }
    );
    st.evaluations = executed;
    st.distinct_total = corpus_units;
    st.distinct_nontrivial = corpus_units.saturating_sub(seeds as u64).max(if corpus_units > 0 { 2 } else { 0 });
    st.extra.insert("seeds".into(), json!(seeds));
    st.extra.insert("final_corpus_units".into(), json!(corpus_units));
    st.extra.insert("new_units_added".into(), json!(stat("stat::new_units_added:")));
    st.extra.insert("workers".into(), json!(WORKERS));
    // samples: decode a few corpus units
    let mut sampled = 0;
    if let Ok(rd) = std::fs::read_dir(&corpus) {
        let mut names: Vec<_> = rd.filter_map(|e| e.ok()).map(|e| e.path()).collect();
        names.sort();
        for pth in names.iter().rev() {
            if sampled >= 4 {
                break;
            }
            if let Ok(bytes) = std::fs::read(pth) {
                if target == "tape" && !bytes.is_empty() {
                    let which = (bytes[0] as usize) % parts.len().max(1);
                    let tape = bytes_to_tape(&bytes[1..]);
                    let ctx = Ctx { known: known(), strict: false };
                    let rep = parts[which].run_case(&tape, &ctx);
                    st.samples.push(json!({"case": rep.key, "part": parts[which].name()}));
                    sampled += 1;
                } else if target == "text" {
                    st.samples.push(json!({"case": String::from_utf8_lossy(&bytes).to_string()}));
                    sampled += 1;
                }
            }
        }
    }
    if !all_ok {
        // crash artifacts -> replay files
        let mut found = false;
        if let Ok(rd) = std::fs::read_dir(&arts) {
            for e in rd.filter_map(|e| e.ok()) {
                let name = e.file_name().to_string_lossy().to_string();
                if !name.starts_with("crash-") {
                    continue;
                }
                let bytes = std::fs::read(e.path()).map_err(|e| e.to_string())?;
                let msg = if target == "tape" { if bytes.is_empty() { None } else { tape_oracle_filtered(&bytes) } } else { std::str::from_utf8(&bytes).ok().and_then(text_oracle) };
                if let Some(m) = msg {
                    found = true;
                    let (part_name, tape): (String, Vec<u16>) = if target == "tape" { (parts[(bytes[0] as usize) % parts.len()].name().to_string(), bytes_to_tape(&bytes[1..])) } else { ("text".to_string(), vec![]) };
                    let detail = if target == "text" { json!({"input": String::from_utf8_lossy(&bytes).to_string()}) } else { json!({"artifact": name}) };
                    let path = write_replay(prop, &part_name, &format!("fuzz-s{}", seed), &tape, &m, &detail);
                    st.violations.push(Violation { replay: path, msg: m });
                }
            }
        }
        if !found {
            let _ = std::fs::remove_dir_all(&dir);
            return Err(format!("libFuzzer stopped without a reproducible oracle failure (timeout / OOM / infrastructure): {}", log.lines().rev().take(6).collect::<Vec<_>>().join(" | ")));
        }
    }
    let _ = std::fs::remove_dir_all(&dir);
    Ok(st)
}

pub fn tape_oracle_filtered(data: &[u8]) -> Option<String> {
    crate::xp::silence_panics();
    let parts = tape_parts_filtered();
    if parts.is_empty() {
        return None;
    }
    let which = (data[0] as usize) % parts.len();
    let tape = bytes_to_tape(&data[1..]);
    let ctx = Ctx { known: known(), strict: strict() };
    let rep = parts[which].run_case(&tape, &ctx);
    match rep.verdict {
        Verdict::Fail { msg, .. } => Some(format!("property={} part={} {}", parts[which].prop(), parts[which].name(), msg)),
        _ => None,
    }
}
