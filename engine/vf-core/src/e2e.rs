//! e2e mini-tier: generated inputs go through the *real* `#[derive(o2o::o2o)]` that cargo builds from /repo
//! (facade crate + o2o-macros proc-macro), compiled by rustc.  This is what notices changes in the eight-line
//! wrapper crate (attribute registration, to_compile_error) that in-process calls of `derive` cannot see.

use crate::dsl::{has_bare_form, Attr};
use crate::runner::{write_replay, PartStats, Violation};
use serde_json::{json, Value};
use std::process::Command;

pub struct Host {
    pub o2o_rlib: String,
    pub deps_dir: String,
}

pub fn build_host() -> Result<Host, String> {
    let dir = format!("{}/engine/e2e", crate::verif_root());
    let out = Command::new("cargo").args(["build", "--release", "--offline", "--message-format=json"]).current_dir(&dir).env("CARGO_NET_OFFLINE", "true").output().map_err(|e| format!("cannot run cargo: {}", e))?;
    if !out.status.success() {
        return Err(format!("e2e host (real o2o proc-macro) does not build: {}", String::from_utf8_lossy(&out.stderr).chars().rev().take(500).collect::<String>().chars().rev().collect::<String>()));
    }
    let mut rlib = None;
    for l in String::from_utf8_lossy(&out.stdout).lines() {
        if let Ok(v) = serde_json::from_str::<Value>(l) {
            if v["reason"] == "compiler-artifact" && v["target"]["name"] == "o2o" {
                if let Some(files) = v["filenames"].as_array() {
                    for f in files {
                        if let Some(s) = f.as_str() {
                            if s.ends_with(".rlib") {
                                rlib = Some(s.to_string());
                            }
                        }
                    }
                }
            }
        }
    }
    let rlib = rlib.ok_or("cargo did not report the o2o rlib")?;
    let deps_dir = std::path::Path::new(&rlib).parent().map(|p| p.to_string_lossy().to_string()).unwrap_or_default();
    Ok(Host { o2o_rlib: rlib, deps_dir })
}

pub struct Compiled {
    pub ok: bool,
    /// (line of primary span, message) of every error
    pub errors: Vec<(usize, String)>,
    pub raw: String,
}

pub fn compile(host: &Host, tag: &str, program: &str, run: bool) -> Result<(Compiled, Option<String>), String> {
    let dir = format!("{}/e2e-{}-{}", crate::xproc::work_dir(), tag, std::process::id());
    let _ = std::fs::remove_dir_all(&dir);
    std::fs::create_dir_all(&dir).map_err(|e| e.to_string())?;
    let src = format!("{}/prog.rs", dir);
    std::fs::write(&src, program).map_err(|e| e.to_string())?;
    let bin = format!("{}/prog.bin", dir);
    let out = Command::new("rustc")
        .args(["--edition", "2021", "--error-format=json", "-A", "warnings", "-C", "debuginfo=0", "--crate-name", "prog", "--extern"])
        .arg(format!("o2o={}", host.o2o_rlib))
        .arg("-L")
        .arg(format!("dependency={}", host.deps_dir))
        .arg("-o")
        .arg(&bin)
        .arg(&src)
        .output()
        .map_err(|e| format!("cannot run rustc: {}", e))?;
    let raw = String::from_utf8_lossy(&out.stderr).to_string();
    let mut errors = vec![];
    for l in raw.lines() {
        if let Ok(v) = serde_json::from_str::<Value>(l) {
            if v["level"] == "error" {
                let msg = v["message"].as_str().unwrap_or("").to_string();
                if msg.starts_with("aborting due to") {
                    continue;
                }
                let mut line = 0usize;
                if let Some(spans) = v["spans"].as_array() {
                    for s in spans {
                        if s["is_primary"] == true {
                            line = s["line_start"].as_u64().unwrap_or(0) as usize;
                        }
                    }
                }
                errors.push((line, msg));
            }
        }
    }
    let mut stdout = None;
    if out.status.success() && run {
        let r = Command::new(&bin).output().map_err(|e| e.to_string())?;
        stdout = Some(format!("{}{}", String::from_utf8_lossy(&r.stdout), if r.status.success() { "" } else { "\n<non-zero exit>" }));
    }
    let _ = std::fs::remove_dir_all(&dir);
    Ok((Compiled { ok: out.status.success(), errors, raw }, stdout))
}

/// C04 e2e: every one of the 24 trait instruction names, written as a bare attribute, is a registered attribute of
/// the derive and produces impls that a use site can call; plus the other registered attribute names in documented use.
pub fn c04_registration(seed: u64) -> Result<PartStats, String> {
    use crate::dsl::*;
    let host = build_host()?;
    let mut st = PartStats { name: "e2e-registration".into(), ..Default::default() };
    st.rule = "Through the real #[derive(o2o::o2o)] built by cargo from /repo: one module per trait instruction name (all 24, written as a bare attribute) whose use site calls exactly the conversions the README tabulates for it, plus one module using every other registered attribute (child, child_parents, parent, ghost, ghosts, where_clause, literal, pattern, type_hint, o2o) in documented form; the program must compile and its assertions hold. evaluations = modules; all are non-trivial; exhaustive over the 24 names.".into();
    let mut prog = String::from("#![allow(warnings)]\nuse o2o::o2o;\nuse o2o::traits::{IntoExisting, TryIntoExisting};\n#[derive(Debug, Clone, PartialEq)] pub struct E(pub i64);\n");
    let mut module_lines: Vec<(usize, usize, String)> = vec![];
    let mut calls = String::new();
    for name in TRAIT_NAMES.iter() {
        let (kinds, fallible) = trait_name_cells(name).unwrap();
        let start = prog.lines().count() + 1;
        let mut m = format!("pub mod m_{} {{ use super::*;\n#[derive(Debug, Clone, PartialEq, Default)] pub struct D {{ pub a: i64 }}\n#[derive(o2o, Debug, Clone, PartialEq)]\n#[{}(D{})]\npub struct S {{ pub a: i64 }}\npub fn check() {{\n", name, name, if fallible { ", E" } else { "" });
        for k in kinds {
            m.push_str(&match (k, fallible) {
                (FO, false) => "  { let s: S = ::core::convert::From::from(D { a: 7 }); assert_eq!(s, S { a: 7 }); }\n".to_string(),
                (FR, false) => "  { let d = D { a: 7 }; let s: S = ::core::convert::From::from(&d); assert_eq!(s, S { a: 7 }); }\n".to_string(),
                (OI, false) => "  { let d: D = ::core::convert::Into::into(S { a: 7 }); assert_eq!(d, D { a: 7 }); }\n".to_string(),
                (RI, false) => "  { let s = S { a: 7 }; let d: D = ::core::convert::Into::into(&s); assert_eq!(d, D { a: 7 }); }\n".to_string(),
                (OIE, false) => "  { let mut d = D { a: 0 }; S { a: 7 }.into_existing(&mut d); assert_eq!(d, D { a: 7 }); }\n".to_string(),
                (RIE, false) => "  { let s = S { a: 7 }; let mut d = D { a: 0 }; (&s).into_existing(&mut d); assert_eq!(d, D { a: 7 }); }\n".to_string(),
                (FO, true) => "  { let s: Result<S, E> = ::core::convert::TryFrom::try_from(D { a: 7 }); assert_eq!(s, Ok(S { a: 7 })); }\n".to_string(),
                (FR, true) => "  { let d = D { a: 7 }; let s: Result<S, E> = ::core::convert::TryFrom::try_from(&d); assert_eq!(s, Ok(S { a: 7 })); }\n".to_string(),
                (OI, true) => "  { let d: Result<D, E> = ::core::convert::TryInto::try_into(S { a: 7 }); assert_eq!(d, Ok(D { a: 7 })); }\n".to_string(),
                (RI, true) => "  { let s = S { a: 7 }; let d: Result<D, E> = ::core::convert::TryInto::try_into(&s); assert_eq!(d, Ok(D { a: 7 })); }\n".to_string(),
                (OIE, true) => "  { let mut d = D { a: 0 }; let r: Result<(), E> = S { a: 7 }.try_into_existing(&mut d); assert_eq!((r, d), (Ok(()), D { a: 7 })); }\n".to_string(),
                (RIE, true) => "  { let s = S { a: 7 }; let mut d = D { a: 0 }; let r: Result<(), E> = (&s).try_into_existing(&mut d); assert_eq!((r, d), (Ok(()), D { a: 7 })); }\n".to_string(),
                _ => unreachable!(),
            });
        }
        m.push_str("}\n}\n");
        prog.push_str(&m);
        module_lines.push((start, prog.lines().count(), name.to_string()));
        calls.push_str(&format!("    m_{}::check();\n", name));
        st.evaluations += 1;
    }
    // the other registered attribute names, in documented form (README examples, condensed)
    let start = prog.lines().count() + 1;
    prog.push_str(
        r#"pub mod m_others { use super::*;
#[derive(Debug, Clone, PartialEq, Default)] pub struct Car { pub doors: i64, pub vehicle: Vehicle }
#[derive(Debug, Clone, PartialEq, Default)] pub struct Vehicle { pub seats: i64, pub extra: i64 }
#[derive(o2o, Debug, Clone, PartialEq)]
#[map_owned(Car)]
#[child_parents(vehicle: Vehicle)]
#[ghosts(vehicle@extra: { 5 })]
pub struct CarDto { pub doors: i64, #[child(vehicle)] pub seats: i64, #[ghost({ 9 })] pub note: i64 }
#[derive(Debug, Clone, PartialEq, Default)] pub struct Flat { pub doors: i64, pub seats: i64, pub extra: i64 }
#[derive(o2o, Debug, Clone, PartialEq)]
#[owned_into(Flat)]
pub struct Car2 { pub doors: i64, #[parent(seats, extra)] pub vehicle: Vehicle }
#[derive(Debug, Clone, PartialEq)] pub struct G<T> { pub t: T }
#[derive(o2o, Debug, Clone, PartialEq)]
#[map_owned(G::<T>)]
#[where_clause(T: Clone)]
pub struct GDto<T> { #[map(t, ~.clone())] pub u: T }
#[derive(o2o, Debug, Clone, PartialEq)]
#[o2o(map_owned(i64| _ => panic!("unsupported")))]
pub enum Code { #[literal(200)] Ok, #[pattern(400..=499)] #[into({ 400 })] Client }
#[derive(Debug, Clone, PartialEq)] pub enum Src { A, B(i64) }
#[derive(o2o, Debug, Clone, PartialEq)]
#[map_owned(Src)]
pub enum Dst { A, #[type_hint(as ())] B { x: i64 } }
pub fn check() {
    let dto: CarDto = Car { doors: 4, vehicle: Vehicle { seats: 5, extra: 1 } }.into();
    assert_eq!(dto, CarDto { doors: 4, seats: 5, note: 9 });
    let car: Car = dto.into();
    assert_eq!(car, Car { doors: 4, vehicle: Vehicle { seats: 5, extra: 5 } });
    let flat: Flat = Car2 { doors: 2, vehicle: Vehicle { seats: 3, extra: 4 } }.into();
    assert_eq!(flat, Flat { doors: 2, seats: 3, extra: 4 });
    let g: GDto<i64> = G { t: 1i64 }.into();
    assert_eq!(g, GDto { u: 1 });
    assert_eq!(Code::from(200), Code::Ok); assert_eq!(Code::from(450), Code::Client); let c: i64 = Code::Client.into(); assert_eq!(c, 400);
    assert_eq!(Dst::from(Src::B(3)), Dst::B { x: 3 }); let s: Src = Dst::B { x: 4 }.into(); assert_eq!(s, Src::B(4));
}
}
"#,
    );
    module_lines.push((start, prog.lines().count(), "other registered attributes".to_string()));
    calls.push_str("    m_others::check();\n");
    st.evaluations += 1;
    prog.push_str(&format!("fn main() {{\n{}    println!(\"ALL-OK\");\n}}\n", calls));
    let (c, out) = compile(&host, "c04", &prog, true)?;
    st.distinct_nontrivial = st.evaluations;
    st.distinct_total = st.evaluations;
    st.nontrivial_total = st.evaluations;
    st.samples.push(json!({"case": prog.lines().skip(4).take(12).collect::<Vec<_>>().join("\n"), "note": "first module of the generated program"}));
    let mut failures: Vec<String> = vec![];
    if !c.ok {
        for (line, msg) in &c.errors {
            let which = module_lines.iter().find(|(a, b, _)| line >= a && line <= b).map(|x| x.2.clone()).unwrap_or_else(|| "?".into());
            failures.push(format!("[{}] {}", which, msg));
        }
        if failures.is_empty() {
            failures.push(format!("rustc failed: {}", c.raw.chars().take(300).collect::<String>()));
        }
    } else if out.as_deref().map_or(true, |o| !o.contains("ALL-OK")) {
        failures.push(format!("program compiled but an assertion failed: {:?}", out));
    }
    if !failures.is_empty() {
        failures.dedup();
        let msg = format!("real derive: {}", failures.iter().take(4).cloned().collect::<Vec<_>>().join(" | "));
        let path = write_replay("C04", "e2e-registration", &format!("s{}", seed), &[], &msg, &json!({"program": prog, "errors": failures}));
        st.violations.push(Violation { replay: path, msg });
    }
    Ok(st)
}

/// C15 / C16 e2e: generated single-fault inputs through the real derive: the compile must fail with the expected
/// diagnostic in rustc's output and never with "proc-macro derive panicked".
pub fn faults_through_real_derive(prop: &'static str, seed: u64, n: usize, known: &crate::known::Known) -> Result<PartStats, String> {
    use crate::tape::Tape;
    use proptest::strategy::{Strategy, ValueTree};
    use proptest::test_runner::{Config, RngAlgorithm, TestRng, TestRunner};
    let host = build_host()?;
    let mut st = PartStats { name: "e2e-diagnostics".into(), ..Default::default() };
    st.rule = format!("Through the real #[derive(o2o::o2o)] built by cargo from /repo: {} generated inputs (valid-mode base + one documented misuse from the C15 fault classes that validation reports, bare or #[o2o()] spelling), one module each, compiled together by rustc. Oracle: rustc's diagnostics for the module's lines contain the expected o2o message (C15) and nothing anywhere says 'proc-macro derive panicked' (C16). Non-trivial = all; distinct by input text.", n);
    let rng = TestRng::from_seed(RngAlgorithm::ChaCha, &crate::runner::seed32(seed, prop, "e2e-diagnostics", 0));
    let mut runner = TestRunner::new_with_rng(Config::default(), rng);
    let strat = proptest::collection::vec(proptest::num::u16::ANY, 0..=320);
    let mut prog = String::from("#![allow(warnings)]\n");
    let mut mods: Vec<(usize, usize, String, Vec<String>, String)> = vec![];
    let mut tries = 0;
    while mods.len() < n && tries < n * 6 {
        tries += 1;
        let tape = strat.new_tree(&mut runner).map_err(|e| e.to_string())?.current();
        let mut t = Tape::new(&tape);
        let (mut item, _) = crate::gen::gen_item(&mut t, &crate::props::c15::base_opts());
        let class = 1 + t.below(18);
        let e = match crate::props::c15::inject(&mut t, &mut item, class) {
            Some(e) if !e.parse_stage => e,
            _ => continue,
        };
        // only registered bare names may be written bare through the real derive
        let mut ok = true;
        item.for_each_attr_list(&mut |_, l| {
            for a in l {
                if let Attr::O2o { instrs, wrapped: false } = a {
                    if !has_bare_form(&instrs[0].name()) {
                        ok = false;
                    }
                }
            }
        });
        if !ok {
            continue;
        }
        let text = item.render();
        // in-process pre-check: the expected message must be what `derive` itself reports (else it is C15's finding, not e2e's)
        if let crate::xp::Outcome::Err(m) = crate::xp::expand(&text) {
            if !e.messages.iter().all(|x| m.iter().any(|y| y.contains(x.as_str()))) {
                continue;
            }
        } else {
            continue;
        }
        let start = prog.lines().count() + 1;
        prog.push_str(&format!("pub mod m_{} {{\n#[derive(o2o::o2o)]\n{}\n}}\n", mods.len(), text));
        mods.push((start, prog.lines().count(), e.class.clone(), e.messages.clone(), text));
    }
    prog.push_str("fn main() {}\n");
    let (c, _) = compile(&host, prop, &prog, false)?;
    let _ = known;
    st.evaluations = mods.len() as u64;
    st.distinct_nontrivial = mods.len() as u64;
    st.distinct_total = mods.len() as u64;
    for m in mods.iter().take(3) {
        st.samples.push(json!({"case": m.4, "fault": m.2, "expected": m.3}));
    }
    let mut failures = vec![];
    if c.raw.contains("proc-macro derive panicked") {
        failures.push("the real derive panicked (proc-macro derive panicked)".to_string());
    }
    if prop == "C15" {
        for (a, b, class, msgs, text) in &mods {
            let mine: Vec<&String> = c.errors.iter().filter(|(l, _)| l >= a && l <= b).map(|x| &x.1).collect();
            for want in msgs {
                // token-printed types are spaced differently by the compiler's proc_macro and by the fallback: compare without whitespace
                let squeeze = |x: &str| x.chars().filter(|c| !c.is_whitespace()).collect::<String>();
                if !mine.iter().any(|m| squeeze(m).contains(&squeeze(want))) {
                    failures.push(format!("[{}] diagnostic `{}` does not reach rustc's output for: {}", class, want, text.lines().last().unwrap_or("")));
                }
            }
        }
    }
    if !failures.is_empty() {
        let msg = format!("real derive: {}", failures.iter().take(3).cloned().collect::<Vec<_>>().join(" | "));
        let path = write_replay(prop, "e2e-diagnostics", &format!("s{}", seed), &[], &msg, &json!({"program": prog, "failures": failures}));
        st.violations.push(Violation { replay: path, msg });
    }
    Ok(st)
}
