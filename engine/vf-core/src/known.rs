//! known_findings.txt: committed, read-only at run time.
//!
//!   KNOWN-FINDING: property=<id> sig=<sig> <what fails>
//!   fixed: property=<id> <commit> <what failed>
//!
//! A `KNOWN-FINDING` line activates the signature matcher `<sig>` of that
//! property (the matcher itself lives in the property's oracle code and is a
//! narrow predicate over the generated structure and the observed failure).
//! `fixed:` lines suppress nothing.

#[derive(Clone, Debug)]
pub struct KnownEntry {
    pub prop: String,
    pub sig: String,
    pub desc: String,
}

#[derive(Default, Debug)]
pub struct Known {
    pub open: Vec<KnownEntry>,
    pub fixed: Vec<String>,
}

impl Known {
    pub fn load() -> Known {
        let path = format!("{}/known_findings.txt", crate::verif_root());
        let text = std::fs::read_to_string(&path).unwrap_or_default();
        Known::parse(&text)
    }

    pub fn parse(text: &str) -> Known {
        let mut k = Known::default();
        for line in text.lines() {
            let line = line.trim();
            if let Some(rest) = line.strip_prefix("KNOWN-FINDING:") {
                let rest = rest.trim();
                let mut prop = String::new();
                let mut sig = String::new();
                let mut desc = vec![];
                for w in rest.split_whitespace() {
                    if prop.is_empty() && w.starts_with("property=") {
                        prop = w["property=".len()..].to_string();
                    } else if sig.is_empty() && w.starts_with("sig=") {
                        sig = w["sig=".len()..].to_string();
                    } else {
                        desc.push(w);
                    }
                }
                if !prop.is_empty() && !sig.is_empty() {
                    k.open.push(KnownEntry { prop, sig, desc: desc.join(" ") });
                }
            } else if line.starts_with("fixed:") {
                k.fixed.push(line.to_string());
            }
        }
        k
    }

    pub fn is_open(&self, prop: &str, sig: &str) -> bool {
        if self.open.iter().any(|e| e.prop == prop && e.sig == sig) {
            return true;
        }
        // C20 re-uses the mapping plans of C01 / C02 / C03: a functional defect listed for its own property (the plan
        // does not compile at all, with or without std) is the same finding there, not a no_std violation
        if let Some(inner) = sig.strip_prefix("functional:") {
            return self.open.iter().any(|e| e.sig == inner && matches!(e.prop.as_str(), "C01" | "C02" | "C03"));
        }
        false
    }

    pub fn for_prop(&self, prop: &str) -> Vec<&KnownEntry> {
        self.open.iter().filter(|e| e.prop == prop).collect()
    }
}
