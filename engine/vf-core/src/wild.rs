//! L0 token soup and "wild mode": arbitrary instructions on arbitrary items with
//! arbitrary argument token trees — well-formed, ill-formed, misplaced,
//! contradictory.  Used by the "any input" properties (C16, C18, C19).

use crate::dsl::*;
use crate::gen::{gen_item, GenOpts};
use crate::tape::Tape;

const SOUP_IDENTS: [&str; 40] = [
    "a", "b", "x", "value", "self", "Self", "f0", "f1", "D", "A", "as", "return", "let", "match", "_", "mut", "ref", "where", "for", "impl", "dyn", "Unit", "vars", "repeat",
    "permeate", "skip_repeat", "stop_repeat", "attribute", "impl_attribute", "inner_attribute", "map", "ghost", "parent", "child", "quick_return", "default_case", "update", "type_hint",
    "crate", "super",
];
const SOUP_LITS: [&str; 17] = ["0", "1", "42u8", "1.5", "\"~@\"", "\"x\"", "'~'", "'a'", "r#\"@\"#", "b\"q\"", "0x1F", "1e3", "true", "b'@'", "c\"z\"", "cr#\"z\"#", "1_0"];
const SOUP_PUNCT: [&str; 34] = [
    "@", "~", "|", ",", ":", "::", ".", "..", "..=", "=>", "->", "+", "-", "*", "/", "&", "&&", "||", "!", "?", ";", "#", "$", "=", "==", "<", ">", "<=", ">=", "%", "^", "<<", "+=", "'a",
];

/// Random balanced token text (always lexable).
pub fn soup(t: &mut Tape, depth: usize, max_len: usize) -> String {
    let n = t.below(max_len + 1);
    let mut out: Vec<String> = vec![];
    for _ in 0..n {
        match t.weighted(&[6, 3, 6, if depth < 4 { 3 } else { 0 }]) {
            0 => out.push(t.pick(&SOUP_IDENTS).to_string()),
            1 => out.push(t.pick(&SOUP_LITS).to_string()),
            2 => out.push(t.pick(&SOUP_PUNCT).to_string()),
            _ => {
                let inner = soup(t, depth + 1, max_len / 2 + 1);
                out.push(match t.below(3) {
                    0 => format!("({})", inner),
                    1 => format!("[{}]", inner),
                    _ => format!("{{{}}}", inner),
                });
            }
        }
    }
    out.join(" ")
}

pub const ALL_INSTR_NAMES: [&str; 52] = [
    "owned_into", "ref_into", "into", "from_owned", "from_ref", "from", "map_owned", "map_ref", "map", "owned_into_existing", "ref_into_existing", "into_existing",
    "owned_try_into", "ref_try_into", "try_into", "try_from_owned", "try_from_ref", "try_from", "try_map_owned", "try_map_ref", "try_map", "owned_try_into_existing",
    "ref_try_into_existing", "try_into_existing", "ghost", "ghost_owned", "ghost_ref", "ghosts", "ghosts_owned", "ghosts_ref", "child", "children", "child_parents", "parent",
    "as_type", "literal", "pattern", "type_hint", "repeat", "skip_repeat", "stop_repeat", "where_clause", "allow_unknown", "unknown_thing", "o2o", "doc", "vars", "permeate",
    "try_owned_into", "try_ref_into", "Map", "r#map",
];

const TYPED_ARGS: [&str; 40] = [
    "D", "D as {}", "D as ()", "D as Unit", "D, E", "D as {}, E", "(i32, i64)", "D| vars(v: {1})", "D| ..Default::default()", "D| return make(@)", "D| _ => panic!()",
    "D| repeat(), vars(v: {1})", "D| skip_repeat", "D| stop_repeat", "D| repeat(vars), stop_repeat, return x()", "x", "0", "x, ~ + 1", "~.clone()", "@.x", "D| x", "D| x, ~ * 2",
    "{ 7 }", "a.b", "a", "D| a.b", "a: A, a.b: B", "a: A as (), a.b: B as {}", "g: {1}", "a.b@g: {1}", "1: {2}", "V: {S::A}, W(x, ..): {S::B}", "p, [map(qq)] q, [parent(z)] inner: Inner",
    "i64", "m, i64", "as {}", "as ()", "as Unit", "permeate()", "map, ghost",
];

fn wild_instr(t: &mut Tape) -> Instr {
    let name = t.pick(&ALL_INSTR_NAMES).to_string();
    let args = match t.below(4) {
        0 => None,
        1 | 2 => Some(t.pick(&TYPED_ARGS).to_string()),
        _ => Some(soup(t, 0, 8)),
    };
    Instr::Raw { name, args }
}

fn wild_attr(t: &mut Tape) -> Attr {
    match t.below(12) {
        0 => Attr::Foreign(t.pick(&["doc = \"hi\"", "serde(rename = \"z\")", "foo = 1", "map = \"D\"", "map[D]", "map{D}", "o2o", "o2o()", "o2o::map(D)", "cfg(test)", "o2o = 3", "o2o[map(D)]", "o2o(map(D),)", "o2o(,)"]).to_string()),
        1 | 2 => {
            let n = 1 + t.below(3);
            Attr::wrapped((0..n).map(|_| wild_instr(t)).collect())
        }
        _ => {
            let i = wild_instr(t);
            // bare spelling even for names a user could not write bare: `derive` is a pub fn and is fed by other macros too
            Attr::bare(i)
        }
    }
}

const WILD_FIELD_TYS: [&str; 8] = ["i32", "&'a str", "(i32, i32)", "[u8; 4]", "fn(i32) -> i32", "Inner", "Option<Box<S>>", "*const u8"];

/// A wild derive input: starts from a generated (mostly valid) item and applies `k` random mutations.
pub fn gen_wild(t: &mut Tape, o: &GenOpts) -> (Item, Vec<String>) {
    let (mut item, mut labels) = gen_item(t, o);
    let k = 1 + t.weighted(&[4, 4, 3, 2, 1, 1]);
    for _ in 0..k {
        let m = t.below(13);
        match m {
            0 | 1 | 2 => {
                // insert a wild attribute at a random site
                let mut sites = 0;
                item.for_each_attr_list(&mut |_, _| sites += 1);
                let target = t.below(sites);
                let attr = wild_attr(t);
                let pos_draw = t.raw();
                let mut idx = 0;
                item.for_each_attr_list_mut(&mut |_, l| {
                    if idx == target {
                        let pos = ((pos_draw as usize) * (l.len() + 1)) >> 16;
                        l.insert(pos, attr.clone());
                    }
                    idx += 1;
                });
                labels.push("wild:insert".into());
            }
            3 | 4 => {
                // replace the arguments of an existing instruction with soup or typed args
                let total = item.count_instrs();
                if total > 0 {
                    let target = t.below(total);
                    let new_args = match t.below(3) {
                        0 => None,
                        1 => Some(t.pick(&TYPED_ARGS).to_string()),
                        _ => Some(soup(t, 0, 10)),
                    };
                    let mut idx = 0;
                    item.for_each_attr_list_mut(&mut |_, l| {
                        for a in l.iter_mut() {
                            if let Some(ins) = a.instrs_mut() {
                                for i in ins.iter_mut() {
                                    if idx == target {
                                        *i = Instr::Raw { name: i.name(), args: new_args.clone() };
                                    }
                                    idx += 1;
                                }
                            }
                        }
                    });
                    labels.push("wild:soup-args".into());
                }
            }
            5 => {
                // move / copy an instruction to another site (misplacement)
                let mut all: Vec<Instr> = vec![];
                item.for_each_attr_list(&mut |_, l| all.extend(l.iter().flat_map(|a| a.instrs().iter().cloned())));
                if !all.is_empty() {
                    let ins = t.pick(&all).clone();
                    let mut sites = 0;
                    item.for_each_attr_list(&mut |_, _| sites += 1);
                    let target = t.below(sites);
                    let wrapped = t.coin();
                    let mut idx = 0;
                    item.for_each_attr_list_mut(&mut |_, l| {
                        if idx == target {
                            l.push(if wrapped { Attr::wrapped(vec![ins.clone()]) } else { Attr::bare(ins.clone()) });
                        }
                        idx += 1;
                    });
                    labels.push("wild:misplace".into());
                }
            }
            6 => {
                // delete an attribute
                let mut sites = vec![];
                let mut idx = 0;
                item.for_each_attr_list(&mut |_, l| {
                    if !l.is_empty() {
                        sites.push(idx);
                    }
                    idx += 1;
                });
                if !sites.is_empty() {
                    let target = *t.pick(&sites);
                    let d = t.raw();
                    let mut idx = 0;
                    item.for_each_attr_list_mut(&mut |_, l| {
                        if idx == target {
                            let pos = ((d as usize) * l.len()) >> 16;
                            l.remove(pos);
                        }
                        idx += 1;
                    });
                    labels.push("wild:delete".into());
                }
            }
            7 => {
                // exotic field type
                let ty = t.pick(&WILD_FIELD_TYS).to_string();
                let d = t.raw() as usize;
                match &mut item.body {
                    Body::Struct(_, fs) | Body::Union(fs) if !fs.is_empty() => {
                        let n = fs.len();
                        fs[(d * n) >> 16].ty = ty;
                    }
                    Body::Enum(vs) => {
                        let mut fl: Vec<&mut FieldDef> = vs.iter_mut().flat_map(|v| v.fields.iter_mut()).collect();
                        if !fl.is_empty() {
                            let n = fl.len();
                            fl[(d * n) >> 16].ty = ty;
                        }
                    }
                    _ => {}
                }
                labels.push("wild:field-type".into());
            }
            8 => {
                // item kind games: union, empty struct, empty enum
                match t.below(4) {
                    0 => {
                        if let Body::Struct(Shape::Named, fs) = &item.body {
                            if !fs.is_empty() {
                                item.body = Body::Union(fs.clone());
                                labels.push("wild:union".into());
                            }
                        }
                    }
                    1 => {
                        item.body = Body::Enum(vec![]);
                        labels.push("wild:empty-enum".into());
                    }
                    2 => {
                        item.body = Body::Struct(Shape::Named, vec![]);
                        labels.push("wild:empty-struct".into());
                    }
                    _ => {
                        item.body = Body::Struct(Shape::Tuple, vec![]);
                        labels.push("wild:empty-tuple".into());
                    }
                }
            }
            11 => {
                // #[o2o(allow_unknown)] first, then somebody else's attribute in `name = value` form on the type or on a member
                item.attrs.insert(0, Attr::wrapped(vec![Instr::AllowUnknown]));
                let foreign = Attr::Foreign(t.pick(&["must_use = \"x\"", "deprecated = \"y\"", "zzz = 1", "where_clause = \"T: Copy\""]).to_string());
                let mut sites = 0;
                item.for_each_attr_list(&mut |_, _| sites += 1);
                let target = t.below(sites);
                let mut idx = 0;
                item.for_each_attr_list_mut(&mut |_, l| {
                    if idx == target {
                        l.push(foreign.clone());
                    }
                    idx += 1;
                });
                labels.push("wild:allow_unknown+name-value-attr".into());
            }
            10 => {
                // a structure-preserving recombination (change a hint or a kind set, named <-> tuple, swap the attribute lists of
                // two members, change a dedication, strip a member name or an action): inputs validation has to catch or accept
                crate::props::c17::recombine(t, &mut item, &mut labels);
                labels.push("wild:recombine".into());
            }
            9 => {
                // give a trait instruction a body-replacing / body-extending parameter it was not generated with:
                // validation skips rules that such a parameter makes moot, expansion must skip the same rendering
                let mut n = 0;
                item.for_each_attr_list(&mut |_, l| n += l.iter().flat_map(|a| a.instrs().iter()).filter(|i| matches!(i, Instr::Trait(_))).count());
                if n > 0 {
                    let target = t.below(n);
                    let p = match t.below(4) {
                        0 | 1 => TParam::Return(t.pick(&["make(@)", "{ todo!() }"]).to_string()),
                        2 => TParam::Update("Default::default()".into()),
                        _ => TParam::DefaultCase("todo!()".into()),
                    };
                    let mut idx = 0;
                    item.for_each_attr_list_mut(&mut |_, l| {
                        for a in l.iter_mut() {
                            if let Some(ins) = a.instrs_mut() {
                                for i in ins.iter_mut() {
                                    if let Instr::Trait(tr) = i {
                                        if idx == target {
                                            tr.params.retain(|x| !matches!(x, TParam::Return(_) | TParam::Update(_) | TParam::DefaultCase(_)));
                                            tr.params.push(p.clone());
                                        }
                                        idx += 1;
                                    }
                                }
                            }
                        }
                    });
                    labels.push("wild:add-tail-param".into());
                }
            }
            _ => {
                // generics
                item.generics = t.pick(&["<T>", "<'a, T: Copy>", "<T, const N: usize = 3>", "<'a, 'b: 'a>", "<T = i32>"]).to_string();
                labels.push("wild:generics".into());
            }
        }
    }
    (item, labels)
}

/// A tiny skeleton whose every instruction is raw: `name(soup)` on every level.
pub fn gen_soup_item(t: &mut Tape) -> (Item, Vec<String>) {
    let mut labels = vec!["soup".to_string()];
    let mk_attrs = |t: &mut Tape, max: usize| -> Vec<Attr> {
        let n = t.below(max + 1);
        (0..n).map(|_| wild_attr(t)).collect()
    };
    let mut attrs = vec![];
    // usually one parseable trait instruction first so that expansion reaches validation and rendering
    if t.chance(3, 4) {
        let name = t.pick(&TRAIT_NAMES).to_string();
        let fallible = name.contains("try");
        let hint = match t.below(5) {
            0 => " as {}",
            1 => " as ()",
            2 => " as Unit",
            _ => "",
        };
        let tail = match t.below(6) {
            0 => format!("| {}", soup(t, 0, 6)),
            1 => "| vars(v: {1})".into(),
            2 => "| _ => panic!()".into(),
            _ => String::new(),
        };
        attrs.push(Attr::bare(Instr::Raw { name, args: Some(format!("D{}{}{}", hint, if fallible { ", E" } else { "" }, tail)) }));
        labels.push("soup:with-trait-instr".into());
    }
    attrs.extend(mk_attrs(t, 3));
    let body = if t.chance(2, 5) {
        let nv = t.below(4);
        Body::Enum(
            (0..nv)
                .map(|vi| {
                    let shape = match t.below(3) {
                        0 => Shape::Unit,
                        1 => Shape::Tuple,
                        _ => Shape::Named,
                    };
                    let nf = if shape == Shape::Unit { 0 } else { t.below(3) };
                    VariantDef {
                        attrs: mk_attrs(t, 2),
                        name: format!("V{}", vi),
                        shape,
                        fields: (0..nf).map(|i| FieldDef { attrs: mk_attrs(t, 2), name: if shape == Shape::Named { Some(format!("f{}", i)) } else { None }, ty: t.pick(&WILD_FIELD_TYS).to_string() }).collect(),
                    }
                })
                .collect(),
        )
    } else {
        let shape = match t.below(4) {
            0 => Shape::Unit,
            1 => Shape::Tuple,
            _ => Shape::Named,
        };
        let nf = if shape == Shape::Unit { 0 } else { t.below(4) };
        Body::Struct(shape, (0..nf).map(|i| FieldDef { attrs: mk_attrs(t, 3), name: if shape == Shape::Named { Some(format!("m{}", i)) } else { None }, ty: t.pick(&WILD_FIELD_TYS).to_string() }).collect())
    };
    (Item { attrs, name: "S".into(), generics: if t.chance(1, 6) { "<'a, T>".into() } else { String::new() }, where_clause: String::new(), body }, labels)
}

pub fn wild_opts() -> GenOpts {
    GenOpts { allow_repeat: true, allow_generics: true, enum_into_existing: true, ..GenOpts::default() }
}
