//! C07 cases: one mapping, all twelve flavours (infallible on S, fallible on a twin SF with the same member
//! instructions), compared pairwise — no reference function involved.

use crate::e2::E2Case;
use crate::plan_struct::ExprT;
use crate::tape::Tape;
use std::fmt::Write;

#[derive(Clone, Debug)]
enum Role {
    Mapped { d: String, from: ExprT, into: ExprT },
    Ghost(i64),
}

pub fn gen_case(t: &mut Tape, core_only: bool) -> E2Case {
    let named = !t.chance(1, 4);
    let nf = 1 + t.weighted(&[2, 4, 4, 2, 1]);
    // the counterpart has the form of S, or (1 in 4 named structs) it is positional and reached through `as ()` and index renames
    let d_named = named && !t.chance(1, 4);
    let mut labels = vec![if named { "named".to_string() } else { "tuple".to_string() }, format!("fields:{}", nf)];
    if named && !d_named {
        labels.push("named-to-positional".into());
    }
    let sname = |i: usize| if named { ["a", "b", "c", "d", "e"][i].to_string() } else { format!("{}", i) };
    let mut roles: Vec<Role> = vec![];
    let mut dpos = 0;
    for i in 0..nf {
        // tuple: trailing ghosts only
        let ghost = if named { t.chance(1, 6) } else { i == nf - 1 && nf > 1 && t.chance(1, 4) };
        if ghost {
            roles.push(Role::Ghost(300 + t.below(600) as i64));
            continue;
        }
        let d = if d_named {
            if t.chance(1, 3) {
                ["x", "y", "z", "w", "p"][i].to_string()
            } else {
                sname(i)
            }
        } else {
            format!("{}", dpos)
        };
        dpos += 1;
        let (from, into) = if t.chance(1, 2) { (ExprT::gen(t), ExprT::gen(t)) } else { (ExprT::Id, ExprT::Id) };
        roles.push(Role::Mapped { d, from, into });
    }
    let mapped: Vec<usize> = (0..nf).filter(|i| matches!(roles[*i], Role::Mapped { .. })).collect();
    if mapped.is_empty() {
        roles[0] = Role::Mapped { d: if d_named { sname(0) } else { "0".into() }, from: ExprT::Id, into: ExprT::Id };
    }
    let mapped: Vec<usize> = (0..nf).filter(|i| matches!(roles[*i], Role::Mapped { .. })).collect();
    // a positional counterpart: the members may stand in another order there (index renames)
    if !d_named && mapped.len() >= 2 && t.chance(2, 3) {
        let mut perm: Vec<usize> = (0..mapped.len()).collect();
        t.shuffle(&mut perm);
        if perm.iter().enumerate().any(|(k, p)| k != *p) {
            labels.push("permuted-positions".into());
        }
        for (k, i) in mapped.iter().enumerate() {
            if let Role::Mapped { d, .. } = &mut roles[*i] {
                *d = format!("{}", perm[k]);
            }
        }
    }
    // optional bare #[parent] member (named structs): its type P / PF maps itself; one of its members is also written by
    // the struct itself, so the order "own assignments, then the nested value" is observable in every Into-like flavour
    let bare_parent = d_named && t.chance(1, 3);
    let overlap: Option<String> = if bare_parent { mapped.first().and_then(|i| if let Role::Mapped { d, .. } = &roles[*i] { Some(d.clone()) } else { None }) } else { None };
    // D-only members
    let n_ghosts = if bare_parent { 0 } else { t.weighted(&[4, 2, 1]) };
    let n_unmentioned = if d_named { t.weighted(&[3, 2, 1]) } else { 0 };
    let mut d_members: Vec<(String, Option<usize>, Option<i64>)> = vec![]; // (name, from S field, ghosts const)
    for i in &mapped {
        if let Role::Mapped { d, .. } = &roles[*i] {
            d_members.push((d.clone(), Some(*i), None));
        }
    }
    if !d_named {
        d_members.sort_by_key(|m| m.0.parse::<usize>().unwrap_or(0));
    }
    for g in 0..n_ghosts {
        let name = if d_named { format!("g{}", g) } else { format!("{}", d_members.len()) };
        d_members.push((name, None, Some(2000 + t.below(900) as i64)));
    }
    for u in 0..n_unmentioned {
        d_members.push((format!("u{}", u), None, None));
    }
    if bare_parent {
        d_members.push(("pu".to_string(), None, None));
        labels.push("bare-parent".into());
    }
    if n_ghosts > 0 {
        labels.push("ghosts".into());
    }
    if n_unmentioned > 0 {
        labels.push("unmentioned-members".into());
    }
    // error-raising member (fallible twin only)
    let trig: Option<usize> = if t.chance(2, 3) { Some(*t.pick(&mapped)) } else { None };
    if trig.is_some() {
        labels.push("error-raising-member".into());
    }

    // ---- instructions --------------------------------------------------------------------------
    let upd = if n_unmentioned > 0 { "| ..sentinel()" } else { "" };
    let ghosts_attr = if n_ghosts > 0 { format!("#[ghosts({})]\n", d_members.iter().filter(|m| m.2.is_some()).map(|m| format!("{}: {{ {} }}", m.0, m.2.unwrap())).collect::<Vec<_>>().join(", ")) } else { String::new() };
    let hint = if named && !d_named { " as ()" } else { "" };
    let s_type_attrs = format!("#[from(D{h})]\n#[into(D{h}{})]\n#[into_existing(D{h})]\n{}", upd, ghosts_attr, h = hint);
    let sf_type_attrs = format!("#[try_from(D{h}, E)]\n#[try_into(D{h}, E{})]\n#[try_into_existing(D{h}, E)]\n{}", upd, ghosts_attr, h = hint);
    let mut s_fields = String::new();
    let mut sf_fields = String::new();
    let mut plain_fields = String::new();
    for i in 0..nf {
        let own = sname(i);
        let (sa, sfa) = match &roles[i] {
            Role::Ghost(c) => {
                labels.push("ghost".into());
                let a = format!("#[ghost({{ {} }})] ", c);
                (a.clone(), a)
            }
            Role::Mapped { d, from, into } => {
                let rename = *d != own;
                let m = if rename { format!("{}, ", d) } else { String::new() };
                let mut s_attr = String::new();
                let fa = from.dsl("~");
                let ia = into.dsl("~");
                if rename || fa.is_some() || ia.is_some() {
                    if fa == ia && t.coin() {
                        let _ = write!(s_attr, "#[map({}{})] ", if fa.is_some() { m.clone() } else { d.clone() }, fa.clone().unwrap_or_default());
                    } else {
                        let one = |name: &str, a: &Option<String>| match a {
                            Some(a) => format!("#[{}({}{})] ", name, m, a),
                            None if rename => format!("#[{}({})] ", name, d),
                            None => String::new(),
                        };
                        s_attr.push_str(&one("from", &fa));
                        s_attr.push_str(&one("into", &ia));
                    }
                }
                let sf_attr = if trig == Some(i) {
                    // same mapping plus a `?` that fires on a trigger value; written with the fallible names
                    let f_body = format!("{{{{ if ~ == 888 {{ Err::<i64, E>(E(8))?; }} {} }}}}", from.reference("~"));
                    let i_body = format!("{{{{ if ~ == 777 {{ Err::<i64, E>(E(7))?; }} {} }}}}", into.reference("~"));
                    format!("#[try_from({}{})] #[try_into({}{})] ", m, f_body, m, i_body)
                } else {
                    s_attr.clone()
                };
                (s_attr, sf_attr)
            }
        };
        if named {
            let _ = write!(s_fields, "{}pub {}: i64, ", sa, own);
            let _ = write!(sf_fields, "{}pub {}: i64, ", sfa, own);
            let _ = write!(plain_fields, "pub {}: i64, ", own);
        } else {
            let _ = write!(s_fields, "{}pub i64, ", sa);
            let _ = write!(sf_fields, "{}pub i64, ", sfa);
            plain_fields.push_str("pub i64, ");
        }
    }
    if bare_parent {
        s_fields.push_str("#[parent] pub p: P, ");
        sf_fields.push_str("#[parent] pub p: PF, ");
    }
    let (o, c) = if named { ("{ ", " }") } else { ("(", ");") };
    let derive_s = format!("{}pub struct S {}{}{}", s_type_attrs, o, s_fields, c);
    let derive_sf = format!("{}pub struct SF {}{}{}", sf_type_attrs, o, sf_fields, c);

    // ---- harness -------------------------------------------------------------------------------
    let mut h = String::new();
    h.push_str("#[derive(Debug, Clone, PartialEq)] pub struct E(pub i64);\n");
    let (pf_s, pf_sf) = if bare_parent { ("pub p: P, ", "pub p: PF, ") } else { ("", "") };
    let _ = write!(h, "#[derive(Debug, Clone, PartialEq)] pub struct S {}{}{}{}\n#[derive(Debug, Clone, PartialEq)] pub struct SF {}{}{}{}\n", o, plain_fields, pf_s, c, o, plain_fields, pf_sf, c);
    let mut extra_derives: Vec<String> = vec![];
    if bare_parent {
        let ov = overlap.clone().unwrap_or_else(|| "pu".to_string());
        let body = if ov == "pu" { "pub pu: i64, ".to_string() } else { format!("pub {}: i64, pub pu: i64, ", ov) };
        let _ = write!(h, "#[allow(unused_imports)] use o2o::traits::{{IntoExisting, TryIntoExisting}};\n#[derive(Debug, Clone, PartialEq)] pub struct P {{ {} }}\n#[derive(Debug, Clone, PartialEq)] pub struct PF {{ {} }}\n", body, body);
        extra_derives.push(format!("#[from_ref(D)]\n#[into_existing(D)]\npub struct P {{ {} }}", body));
        extra_derives.push(format!("#[try_from_ref(D, E)]\n#[try_into_existing(D, E)]\npub struct PF {{ {} }}", body));
    }
    if d_named {
        let _ = write!(h, "#[derive(Debug, Clone, PartialEq, Default)] pub struct D {{ {} }}\n", d_members.iter().map(|m| format!("pub {}: i64,", m.0)).collect::<Vec<_>>().join(" "));
    } else {
        let _ = write!(h, "#[derive(Debug, Clone, PartialEq)] pub struct D({});\n", d_members.iter().map(|_| "pub i64,").collect::<Vec<_>>().join(" "));
    }
    let d_lit = |vals: &[String]| if d_named { format!("D {{ {} }}", d_members.iter().zip(vals).map(|(m, v)| format!("{}: {}", m.0, v)).collect::<Vec<_>>().join(", ")) } else { format!("D({})", vals.iter().map(|v| format!("{},", v)).collect::<Vec<_>>().join(" ")) };
    let sent: Vec<String> = (0..d_members.len()).map(|j| format!("{}", -(7000 + 11 * j as i64))).collect();
    let _ = write!(h, "pub fn sentinel() -> D {{ {} }}\n", d_lit(&sent));
    let trig_d = trig.and_then(|i| if let Role::Mapped { d, .. } = &roles[i] { Some(d.clone()) } else { None });
    let dv = |trigger: bool, t: &mut Tape| -> Vec<String> { d_members.iter().enumerate().map(|(j, m)| if trigger && Some(&m.0) == trig_d.as_ref() { "888".to_string() } else { format!("{}", 5000 + 41 * j as i64 + t.below(20) as i64) }).collect() };
    let v1 = dv(false, t);
    let v2 = dv(true, t);
    let _ = write!(h, "pub fn mk_d(trigger: bool) -> D {{ if trigger {{ {} }} else {{ {} }} }}\n", d_lit(&v2), d_lit(&v1));
    let parent_lit = |ty: &str| -> String {
        if !bare_parent {
            return String::new();
        }
        let pty = if ty == "S" { "P" } else { "PF" };
        match &overlap {
            Some(ov) if ov != "pu" => format!(", p: {} {{ {}: 4242, pu: 4343 }}", pty, ov),
            _ => format!(", p: {} {{ pu: 4343 }}", pty),
        }
    };
    let s_lit = |ty: &str, vals: &[String]| if named { format!("{} {{ {}{} }}", ty, (0..nf).map(|i| format!("{}: {}", sname(i), vals[i])).collect::<Vec<_>>().join(", "), parent_lit(ty)) } else { format!("{}({})", ty, vals.iter().map(|v| format!("{},", v)).collect::<Vec<_>>().join(" ")) };
    let sv = |trigger: bool, t: &mut Tape| -> Vec<String> { (0..nf).map(|i| if trigger && trig == Some(i) { "777".to_string() } else { format!("{}", 1000 + 37 * i as i64 + t.below(20) as i64) }).collect() };
    let (s1, s2) = (sv(false, t), sv(true, t));
    let _ = write!(h, "pub fn mk_s(trigger: bool) -> S {{ if trigger {{ {} }} else {{ {} }} }}\n", s_lit("S", &s2), s_lit("S", &s1));
    let _ = write!(h, "pub fn mk_sf(trigger: bool) -> SF {{ if trigger {{ {} }} else {{ {} }} }}\n", s_lit("SF", &s2), s_lit("SF", &s1));
    let tup = |v: &str| format!("({}{})", (0..nf).map(|i| format!("{}.{},", v, sname(i))).collect::<Vec<_>>().join(" "), if bare_parent { format!(" {}.p.pu,", v) } else { String::new() });
    let tup_ty = format!("({}{})", (0..nf).map(|_| "i64,").collect::<Vec<_>>().join(" "), if bare_parent { " i64," } else { "" });
    let _ = write!(h, "pub fn s_tuple(v: &S) -> {} {{ {} }}\npub fn sf_tuple(v: &SF) -> {} {{ {} }}\n", tup_ty, tup("v"), tup_ty, tup("v"));

    // ---- run: pairwise agreement ---------------------------------------------------------------
    let mut r = String::new();
    if core_only {
        r.push_str("fn same<T>(_a: &T, _b: &T) {}\npub fn run() {\n");
    } else {
        r.push_str("fn chk<T: core::fmt::Debug + PartialEq>(out: &mut Vec<String>, fl: &str, got: &T, want: &T) { if got == want { out.push(format!(\"{} OK\", fl)); } else { out.push(format!(\"{} MISMATCH got={:?} want={:?}\", fl, got, want)); } }\n");
        r.push_str("pub fn run(out: &mut Vec<String>) {\n");
    }
    let mut line = |name: &str, stmt: &str| {
        if core_only {
            let _ = write!(r, "    {{ {} same(&got, &want); }}\n", stmt);
        } else {
            let _ = write!(r, "    {{ {} chk(out, \"{}\", &got, &want); }}\n", stmt, name);
        }
    };
    // by-reference == owned
    line("from_ref==from_owned", "let d = mk_d(false); let got: S = ::core::convert::From::from(&d); let want: S = ::core::convert::From::from(d.clone());");
    line("ref_into==owned_into", "let s = mk_s(false); let got: D = ::core::convert::Into::into(&s); let want: D = ::core::convert::Into::into(s.clone());");
    // fallible == Ok(infallible)
    line("try_from_owned==Ok(from_owned)", "let d = mk_d(false); let got = <SF as ::core::convert::TryFrom<D>>::try_from(d.clone()).map(|x| sf_tuple(&x)); let want: ::core::result::Result<_, E> = Ok(s_tuple(&<S as ::core::convert::From<D>>::from(d)));");
    line("try_from_ref==Ok(from_ref)", "let d = mk_d(false); let got = <SF as ::core::convert::TryFrom<&D>>::try_from(&d).map(|x| sf_tuple(&x)); let want: ::core::result::Result<_, E> = Ok(s_tuple(&<S as ::core::convert::From<&D>>::from(&d)));");
    line("owned_try_into==Ok(owned_into)", "let got: ::core::result::Result<D, E> = ::core::convert::TryInto::try_into(mk_sf(false)); let want: ::core::result::Result<D, E> = Ok(::core::convert::Into::into(mk_s(false)));");
    line("ref_try_into==Ok(ref_into)", "let sf = mk_sf(false); let s = mk_s(false); let got: ::core::result::Result<D, E> = ::core::convert::TryInto::try_into(&sf); let want: ::core::result::Result<D, E> = Ok(::core::convert::Into::into(&s));");
    // into_existing == into on mentioned members, sentinel elsewhere (into carries ..sentinel() when D has unmentioned members)
    line("owned_into_existing==owned_into", "let mut got = sentinel(); o2o::traits::IntoExisting::into_existing(mk_s(false), &mut got); let want: D = ::core::convert::Into::into(mk_s(false));");
    line("ref_into_existing==ref_into", "let s = mk_s(false); let mut got = sentinel(); o2o::traits::IntoExisting::into_existing(&s, &mut got); let want: D = ::core::convert::Into::into(&s);");
    line("owned_try_into_existing==owned_into", "let mut g = sentinel(); let r: ::core::result::Result<(), E> = o2o::traits::TryIntoExisting::try_into_existing(mk_sf(false), &mut g); let got = (r, g); let want: (::core::result::Result<(), E>, D) = (Ok(()), ::core::convert::Into::into(mk_s(false)));");
    line("ref_try_into_existing==ref_into", "let sf = mk_sf(false); let mut g = sentinel(); let r: ::core::result::Result<(), E> = o2o::traits::TryIntoExisting::try_into_existing(&sf, &mut g); let got = (r, g); let want: (::core::result::Result<(), E>, D) = (Ok(()), ::core::convert::Into::into(mk_s(false)));");
    if trig.is_some() {
        // the error raised by a `?` in a user expression is returned instead of a value
        line("try_from_owned:error", "let got = <SF as ::core::convert::TryFrom<D>>::try_from(mk_d(true)).map(|x| sf_tuple(&x)); let want: ::core::result::Result<_, E> = Err(E(8));");
        line("try_from_ref:error", "let d = mk_d(true); let got = <SF as ::core::convert::TryFrom<&D>>::try_from(&d).map(|x| sf_tuple(&x)); let want: ::core::result::Result<_, E> = Err(E(8));");
        line("owned_try_into:error", "let got: ::core::result::Result<D, E> = ::core::convert::TryInto::try_into(mk_sf(true)); let want: ::core::result::Result<D, E> = Err(E(7));");
        line("ref_try_into:error", "let sf = mk_sf(true); let got: ::core::result::Result<D, E> = ::core::convert::TryInto::try_into(&sf); let want: ::core::result::Result<D, E> = Err(E(7));");
        line("owned_try_into_existing:error", "let mut g = sentinel(); let got: ::core::result::Result<(), E> = o2o::traits::TryIntoExisting::try_into_existing(mk_sf(true), &mut g); let want: ::core::result::Result<(), E> = Err(E(7));");
        line("ref_try_into_existing:error", "let sf = mk_sf(true); let mut g = sentinel(); let got: ::core::result::Result<(), E> = o2o::traits::TryIntoExisting::try_into_existing(&sf, &mut g); let want: ::core::result::Result<(), E> = Err(E(7));");
    }
    r.push_str("}\n");
    let nontrivial = mapped.len() >= 2 && (n_unmentioned > 0 || trig.is_some());
    let key = format!("{}\n{}", derive_s, derive_sf);
    let mut derives = vec![derive_s, derive_sf];
    derives.extend(extra_derives);
    let nontrivial = nontrivial || (bare_parent && overlap.is_some());
    E2Case { harness_src: h, derives, run_src: r, key, labels, nontrivial, facts: vec![] }
}
