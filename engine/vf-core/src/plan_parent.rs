//! L2 plans for the inverse flattening (C03, second family): the deriving struct S holds nested values and
//! flattens them into a flat counterpart D with #[parent(..)] (parameterised, recursive, typed where a From kind
//! is requested) or with a bare #[parent] whose field type derives from_ref(D) / into_existing(D) itself.

use crate::dsl::*;
use crate::e2::E2Case;
use crate::plan_struct::ExprT;
use crate::tape::Tape;
use std::fmt::Write;

#[derive(Clone, Debug)]
pub enum PSlot {
    /// (member name in the nested struct, member name in flat D, from expr, into expr)
    Leaf { name: String, d_name: String, from: ExprT, into: ExprT, into_ref: ExprT },
    Nested { name: String, node: Box<PNode> },
}

#[derive(Clone, Debug)]
pub struct PNode {
    pub ty: String,
    pub slots: Vec<PSlot>,
}

#[derive(Clone, Debug)]
pub enum SField {
    Plain { name: String, d_name: String },
    /// parameterised #[parent(..)]
    Parent { name: String, node: PNode },
    /// bare #[parent]: the field's type derives the conversions itself; its members are plain D members
    BareParent { name: String, ty: String, members: Vec<String> },
}

#[derive(Clone, Debug)]
pub struct ParentPlan {
    pub fields: Vec<SField>,
    pub cells: [[bool; 6]; 2],
    pub has_bare: bool,
}

fn gen_node(t: &mut Tape, depth: usize, counter: &mut usize, leaf_counter: &mut usize) -> PNode {
    let id = *counter;
    *counter += 1;
    let n_leaf = 1 + t.below(3);
    let mut slots = vec![];
    for _ in 0..n_leaf {
        let li = *leaf_counter;
        *leaf_counter += 1;
        let name = format!("l{}", li);
        let d_name = if t.chance(1, 3) { format!("dl{}", li) } else { name.clone() };
        let (from, into) = if t.chance(1, 4) { (ExprT::Add(1 + t.below(9) as i64), ExprT::MulSub(1 + t.below(9) as i64)) } else { (ExprT::Id, ExprT::Id) };
        // sometimes the owned and the by-reference Into differ ([owned_into(..)] vs [ref_into(..)] sub-instructions)
        let into_ref = if t.chance(1, 4) { ExprT::Add(20 + t.below(9) as i64) } else { into };
        slots.push(PSlot::Leaf { name, d_name, from, into, into_ref });
    }
    if depth < 2 && t.chance(1, 2) {
        let n = 1 + t.below(2);
        for i in 0..n {
            let node = gen_node(t, depth + 1, counter, leaf_counter);
            slots.push(PSlot::Nested { name: format!("in{}_{}", id, i), node: Box::new(node) });
        }
    }
    t.shuffle(&mut slots);
    PNode { ty: format!("P{}", id), slots }
}

pub fn gen_plan(t: &mut Tape) -> ParentPlan {
    let mut counter = 0;
    let mut leaf_counter = 0;
    let nfields = 1 + t.below(4);
    let mut fields = vec![];
    let mut has_parent = false;
    let mut has_bare = false;
    for i in 0..nfields {
        let want_parent = !has_parent && i == nfields - 1 || t.chance(1, 3);
        if want_parent {
            has_parent = true;
            if t.chance(1, 3) && !has_bare {
                has_bare = true;
                let n = 1 + t.below(3);
                let mut members: Vec<String> = (0..n).map(|_| { let li = leaf_counter; leaf_counter += 1; format!("l{}", li) }).collect();
                // the nested value may write a counterpart member the struct itself also writes: the nested write comes last
                let plain: Vec<String> = fields.iter().filter_map(|f| if let SField::Plain { d_name, .. } = f { Some(d_name.clone()) } else { None }).collect();
                if !plain.is_empty() && t.coin() {
                    members.push(t.pick(&plain).clone());
                }
                fields.push(SField::BareParent { name: format!("b{}", i), ty: format!("B{}", i), members });
            } else {
                let node = gen_node(t, 0, &mut counter, &mut leaf_counter);
                fields.push(SField::Parent { name: format!("v{}", i), node });
            }
        } else {
            let name = format!("a{}", i);
            let d_name = if t.chance(1, 4) { format!("da{}", i) } else { name.clone() };
            fields.push(SField::Plain { name, d_name });
        }
    }
    let mut cells = [[false; 6]; 2];
    let mut any = false;
    // a bare #[parent] relies on the field type's own conversions of the same fallibility: all kinds fallible or none
    let bare_fallible = has_bare && t.chance(1, 3);
    for group in [[FO, FR], [OI, RI], [OIE, RIE]] {
        if !t.chance(3, 4) {
            continue;
        }
        let f = if has_bare { bare_fallible as usize } else { t.chance(1, 4) as usize };
        for k in group {
            if t.chance(3, 4) {
                cells[f][k] = true;
                any = true;
            }
        }
    }
    if !any {
        cells[bare_fallible as usize][OI] = true;
    }
    ParentPlan { fields, cells, has_bare }
}

fn node_defs(n: &PNode, out: &mut String) {
    let _ = write!(
        out,
        "#[derive(Debug, Clone, PartialEq, Default)] pub struct {} {{ {} }}\n",
        n.ty,
        n.slots
            .iter()
            .map(|s| match s {
                PSlot::Leaf { name, .. } => format!("pub {}: i64,", name),
                PSlot::Nested { name, node } => format!("pub {}: {},", name, node.ty),
            })
            .collect::<Vec<_>>()
            .join(" ")
    );
    for s in &n.slots {
        if let PSlot::Nested { node, .. } = s {
            node_defs(node, out);
        }
    }
}

fn parent_fields(n: &PNode, need_types: bool, t: &mut Tape, labels: &mut Vec<String>) -> Vec<ParentField> {
    n.slots
        .iter()
        .map(|s| match s {
            PSlot::Leaf { name, d_name, from, into, into_ref } => {
                let mut attrs = vec![];
                let member = if d_name != name { Some(d_name.clone()) } else { None };
                let args = |m: &Option<String>, a: Option<String>| match (m, a) {
                    (Some(m), Some(a)) => Some(format!("{}, {}", m, a)),
                    (Some(m), None) => Some(m.clone()),
                    (None, Some(a)) => Some(a),
                    (None, None) => None,
                };
                if member.is_some() || !from.is_id() || !into.is_id() || into != into_ref {
                    labels.push("parent:child-instr".into());
                    if into != into_ref {
                        labels.push("parent:owned/ref-differ".into());
                        if let Some(a) = args(&member, from.dsl("~")) {
                            attrs.push(("from".to_string(), a));
                        }
                        // a rename-only instruction still has to be said for each ownership
                        attrs.push(("owned_into".to_string(), args(&member, into.dsl("~")).unwrap_or_else(|| name.clone())));
                        attrs.push(("ref_into".to_string(), args(&member, into_ref.dsl("~")).unwrap_or_else(|| name.clone())));
                    } else if from == into {
                        if let Some(a) = args(&member, from.dsl("~")) {
                            attrs.push(("map".to_string(), a));
                        }
                    } else {
                        if let Some(a) = args(&member, from.dsl("~")) {
                            attrs.push(("from".to_string(), a));
                        }
                        if let Some(a) = args(&member, into.dsl("~")) {
                            attrs.push(("into".to_string(), a));
                        }
                    }
                }
                ParentField { attrs, nested: None, member: name.clone(), ty: None }
            }
            PSlot::Nested { name, node } => {
                labels.push("parent:nested".into());
                ParentField { attrs: vec![], nested: Some(parent_fields(node, need_types, t, labels)), member: name.clone(), ty: if need_types || t.chance(1, 3) { Some(node.ty.clone()) } else { None } }
            }
        })
        .collect()
}

/// (flat D member, path inside S, from expr, into expr)
fn flat_leaves(n: &PNode, path: &str, out: &mut Vec<(String, String, ExprT, ExprT, ExprT)>) {
    for s in &n.slots {
        match s {
            PSlot::Leaf { name, d_name, from, into, into_ref } => out.push((d_name.clone(), format!("{}.{}", path, name), *from, *into, *into_ref)),
            PSlot::Nested { name, node } => flat_leaves(node, &format!("{}.{}", path, name), out),
        }
    }
}

fn node_from_lit(n: &PNode) -> String {
    format!(
        "{} {{ {} }}",
        n.ty,
        n.slots
            .iter()
            .map(|s| match s {
                PSlot::Leaf { name, d_name, from, .. } => format!("{}: {}", name, from.reference(&format!("value.{}", d_name))),
                PSlot::Nested { name, node } => format!("{}: {}", name, node_from_lit(node)),
            })
            .collect::<Vec<_>>()
            .join(", ")
    )
}

pub fn render(t: &mut Tape, plan: &ParentPlan, core_only: bool) -> E2Case {
    let mut labels = vec![format!("fields:{}", plan.fields.len())];
    let mut facts = vec![];
    let has = |k: usize| plan.cells[0][k] || plan.cells[1][k];
    let has_from = has(FO) || has(FR);
    let has_into = has(OI) || has(RI);
    if plan.has_bare {
        labels.push("parent:bare".into());
        facts.push("bare-parent".into());
    }
    // D: all flat members
    let mut d_members: Vec<String> = vec![];
    let mut leaves: Vec<(String, String, ExprT, ExprT, ExprT)> = vec![];
    let mut bare_leaves: Vec<(String, String, ExprT, ExprT, ExprT)> = vec![];
    for f in &plan.fields {
        match f {
            SField::Plain { name, d_name } => {
                d_members.push(d_name.clone());
                leaves.push((d_name.clone(), name.clone(), ExprT::Id, ExprT::Id, ExprT::Id));
            }
            SField::Parent { name, node } => {
                let mut l = vec![];
                flat_leaves(node, name, &mut l);
                for x in &l {
                    d_members.push(x.0.clone());
                }
                leaves.extend(l);
            }
            SField::BareParent { name, members, .. } => {
                for m in members {
                    if !d_members.contains(m) {
                        d_members.push(m.clone());
                    }
                    // poured in by the member's own into_existing *after* the struct's own assignments
                    bare_leaves.push((m.clone(), format!("{}.{}", name, m), ExprT::Id, ExprT::Id, ExprT::Id));
                }
            }
        }
    }
    let mut d_order = d_members.clone();
    t.shuffle(&mut d_order);

    // ---- derive inputs -------------------------------------------------------------------------
    let mut type_instrs: Vec<Instr> = vec![];
    for f in 0..2 {
        if plan.cells[f].iter().any(|x| *x) {
            for name in crate::gen::cover_cells(t, plan.cells[f], f == 1) {
                type_instrs.push(Instr::Trait(TraitInstr { name, ty: "D".into(), hint: None, err: if f == 1 { Some("E".into()) } else { None }, params: vec![] }));
            }
        }
    }
    let mut s_fields_attr = String::new();
    let mut s_fields_plain = String::new();
    let mut extra_derives: Vec<String> = vec![];
    let mut h = String::new();
    h.push_str("#[derive(Debug, Clone, PartialEq)] pub struct E(pub i64);\n");
    if plan.has_bare {
        // the post-init body calls `.into_existing(..)` as a method: the trait must be in scope (as in o2o-tests 14-16)
        h.push_str("#[allow(unused_imports)] use o2o::traits::{IntoExisting, TryIntoExisting};\n");
    }
    for f in &plan.fields {
        match f {
            SField::Plain { name, d_name } => {
                let at = if d_name != name { format!("#[map({})] ", d_name) } else { String::new() };
                let _ = write!(s_fields_attr, "{}pub {}: i64, ", at, name);
                let _ = write!(s_fields_plain, "pub {}: i64, ", name);
            }
            SField::Parent { name, node } => {
                labels.push("parent:params".into());
                let pf = parent_fields(node, has_from, t, &mut labels);
                let ins = Instr::Parent { ded: if t.chance(1, 6) { Some("D".into()) } else { None }, fields: Some(pf) };
                let _ = write!(s_fields_attr, "{} pub {}: {}, ", Attr::auto(ins).render(), name, node.ty);
                let _ = write!(s_fields_plain, "pub {}: {}, ", name, node.ty);
                node_defs(node, &mut h);
            }
            SField::BareParent { name, ty, members } => {
                let _ = write!(s_fields_attr, "#[parent] pub {}: {}, ", name, ty);
                let _ = write!(s_fields_plain, "pub {}: {}, ", name, ty);
                let body: String = members.iter().map(|m| format!("pub {}: i64, ", m)).collect();
                let _ = write!(h, "#[derive(Debug, Clone, PartialEq, Default)] pub struct {} {{ {} }}\n", ty, body);
                // the field type maps itself: From<&D> (used by S's From kinds) and IntoExisting<D> for B and &B
                let fallible = plan.cells[1].iter().any(|x| *x);
                extra_derives.push(if fallible { format!("#[try_from_ref(D, E)]\n#[try_into_existing(D, E)]\npub struct {} {{ {} }}", ty, body) } else { format!("#[from_ref(D)]\n#[into_existing(D)]\npub struct {} {{ {} }}", ty, body) });
            }
        }
    }
    let type_attr_text: String = type_instrs.into_iter().map(|i| format!("{}\n", Attr::auto(i).render())).collect();
    let derive_input = format!("{}pub struct S {{ {} }}", type_attr_text, s_fields_attr);

    // ---- harness ------------------------------------------------------------------------------
    let _ = write!(h, "#[derive(Debug, Clone, PartialEq)] pub struct S {{ {} }}\n", s_fields_plain);
    let _ = write!(h, "#[derive(Debug, Clone, PartialEq, Default)] pub struct D {{ {} }}\n", d_order.iter().map(|m| format!("pub {}: i64,", m)).collect::<Vec<_>>().join(" "));
    let mut c = 5000i64;
    let _ = write!(h, "pub fn mk_d() -> D {{ D {{ {} }} }}\n", d_order.iter().map(|m| { c += 41 + t.below(9) as i64; format!("{}: {}", m, c) }).collect::<Vec<_>>().join(", "));
    let _ = write!(h, "pub fn sentinel() -> D {{ D {{ {} }} }}\n", d_order.iter().enumerate().map(|(i, m)| format!("{}: {}", m, -(7000 + i as i64))).collect::<Vec<_>>().join(", "));
    // S literal from D (reference From)
    let from_fields: Vec<String> = plan
        .fields
        .iter()
        .map(|f| match f {
            SField::Plain { name, d_name } => format!("{}: value.{}", name, d_name),
            SField::Parent { name, node } => format!("{}: {}", name, node_from_lit(node)),
            SField::BareParent { name, ty, members } => format!("{}: {} {{ {} }}", name, ty, members.iter().map(|m| format!("{}: value.{}", m, m)).collect::<Vec<_>>().join(", ")),
        })
        .collect();
    let _ = write!(h, "pub fn ref_from(value: &D) -> S {{ S {{ {} }} }}\n", from_fields.join(", "));
    let _ = write!(h, "pub fn mk_s() -> S {{ let mut s = ref_from(&mk_d()); {} s }}\n", leaves.iter().chain(bare_leaves.iter()).enumerate().map(|(i, l)| format!("s.{} = {};", l.1, 1000 + 37 * i as i64)).collect::<Vec<_>>().join(" "));
    // Into: every D member from its leaf; IntoExisting: same assignments on an existing value
    let mut assigns = String::new();
    for (d, spath, _, into, into_ref) in leaves.iter().chain(bare_leaves.iter()) {
        let src = format!("s.{}", spath);
        if into == into_ref {
            let _ = write!(assigns, "other.{} = {}; ", d, into.reference(&src));
        } else {
            let _ = write!(assigns, "other.{} = if owned {{ {} }} else {{ {} }}; ", d, into.reference(&src), into_ref.reference(&src));
        }
    }
    let _ = write!(h, "pub fn ref_into_existing(s: &S, other: &mut D, owned: bool) {{ let _ = owned; {} }}\n", assigns);
    let _ = write!(h, "pub fn ref_into(s: &S, owned: bool) -> D {{ let mut other: D = Default::default(); ref_into_existing(s, &mut other, owned); other }}\n");
    let _ = has_into;

    // ---- run ----------------------------------------------------------------------------------
    let mut r = String::new();
    if core_only {
        r.push_str("fn same<T>(_a: &T, _b: &T) {}\npub fn run() {\n");
    } else {
        r.push_str("fn chk<T: core::fmt::Debug + PartialEq>(out: &mut Vec<String>, fl: &str, got: &T, want: &T) { if got == want { out.push(format!(\"{} OK\", fl)); } else { out.push(format!(\"{} MISMATCH got={:?} want={:?}\", fl, got, want)); } }\n");
        r.push_str("pub fn run(out: &mut Vec<String>) {\n");
    }
    for (k, f) in [(FO, false), (FR, false), (OI, false), (RI, false), (OIE, false), (RIE, false), (FO, true), (FR, true), (OI, true), (RI, true), (OIE, true), (RIE, true)] {
        if !plan.cells[f as usize][k] {
            continue;
        }
        let stmt = match (k, f) {
            (FO, false) => "let got: S = ::core::convert::From::from(mk_d()); let want = ref_from(&mk_d());".to_string(),
            (FR, false) => "let src = mk_d(); let got: S = ::core::convert::From::from(&src); let want = ref_from(&src);".to_string(),
            (FO, true) => "let got: ::core::result::Result<S, E> = ::core::convert::TryFrom::try_from(mk_d()); let want: ::core::result::Result<S, E> = Ok(ref_from(&mk_d()));".to_string(),
            (FR, true) => "let src = mk_d(); let got: ::core::result::Result<S, E> = ::core::convert::TryFrom::try_from(&src); let want: ::core::result::Result<S, E> = Ok(ref_from(&src));".to_string(),
            (OI, false) => "let got: D = ::core::convert::Into::into(mk_s()); let want = ref_into(&mk_s(), true);".to_string(),
            (RI, false) => "let src = mk_s(); let got: D = ::core::convert::Into::into(&src); let want = ref_into(&src, false);".to_string(),
            (OI, true) => "let got: ::core::result::Result<D, E> = ::core::convert::TryInto::try_into(mk_s()); let want: ::core::result::Result<D, E> = Ok(ref_into(&mk_s(), true));".to_string(),
            (RI, true) => "let src = mk_s(); let got: ::core::result::Result<D, E> = ::core::convert::TryInto::try_into(&src); let want: ::core::result::Result<D, E> = Ok(ref_into(&src, false));".to_string(),
            (OIE, false) => "let mut got = sentinel(); o2o::traits::IntoExisting::into_existing(mk_s(), &mut got); let mut want = sentinel(); ref_into_existing(&mk_s(), &mut want, true);".to_string(),
            (RIE, false) => "let src = mk_s(); let mut got = sentinel(); o2o::traits::IntoExisting::into_existing(&src, &mut got); let mut want = sentinel(); ref_into_existing(&src, &mut want, false);".to_string(),
            (OIE, true) => "let mut g = sentinel(); let r: ::core::result::Result<(), E> = o2o::traits::TryIntoExisting::try_into_existing(mk_s(), &mut g); let got = (r, g); let mut w = sentinel(); ref_into_existing(&mk_s(), &mut w, true); let want = (Ok(()), w);".to_string(),
            (RIE, true) => "let src = mk_s(); let mut g = sentinel(); let r: ::core::result::Result<(), E> = o2o::traits::TryIntoExisting::try_into_existing(&src, &mut g); let got = (r, g); let mut w = sentinel(); ref_into_existing(&src, &mut w, false); let want = (Ok(()), w);".to_string(),
            _ => unreachable!(),
        };
        if core_only {
            let _ = write!(r, "    {{ {} same(&got, &want); }}\n", stmt);
        } else {
            let _ = write!(r, "    {{ {} chk(out, \"{}\", &got, &want); }}\n", stmt, basic_name(k, f));
        }
    }
    r.push_str("}\n");
    let nested = labels.iter().any(|l| l == "parent:nested");
    let nontrivial = nested || plan.has_bare || plan.fields.len() >= 3;
    let mut derives = vec![derive_input.clone()];
    derives.extend(extra_derives);
    E2Case { harness_src: h, derives, run_src: r, key: derive_input, labels, nontrivial, facts }
}
