//! L1 generators on the choice tape: a "valid by construction" generator for
//! rich derive inputs (structs and enums, several counterparts, every
//! instruction kind in default and dedicated form), and the helpers shared by
//! the property-specific generators.

use crate::dsl::*;
use crate::tape::Tape;

#[derive(Clone, Debug)]
pub struct GenOpts {
    pub allow_struct: bool,
    pub allow_enum: bool,
    pub min_cp: usize,
    pub max_cp: usize,
    /// member-level and trait-level repeat / skip_repeat / stop_repeat
    pub allow_repeat: bool,
    /// only instructions that have a bare form (C13)
    pub bare_names_only: bool,
    pub allow_params: bool,
    pub allow_generics: bool,
    /// random bare / wrapped / grouped spelling; otherwise `Attr::auto`
    pub random_spelling: bool,
    /// allow into_existing kinds on enums (no documented meaning; only for "any input" properties)
    pub enum_into_existing: bool,
    /// allow literal / pattern scenario
    pub allow_primitive_enum: bool,
    /// more members per type and denser repeat blocks (C14)
    pub repeat_heavy: bool,
    /// member-level repeat only (C06: a trait-level repeat() deliberately ties one counterpart's params to another's)
    pub member_repeat_only: bool,
}

impl Default for GenOpts {
    fn default() -> Self {
        GenOpts {
            allow_struct: true,
            allow_enum: true,
            min_cp: 1,
            max_cp: 3,
            allow_repeat: false,
            bare_names_only: false,
            allow_params: true,
            allow_generics: false,
            random_spelling: true,
            enum_into_existing: false,
            allow_primitive_enum: true,
            repeat_heavy: false,
            member_repeat_only: false,
        }
    }
}

/// What the generator knows about one counterpart type.
#[derive(Clone, Debug)]
pub struct Cp {
    pub ty: String,
    /// can appear as `Ty| ...` dedication prefix (nameless tuples cannot)
    pub dedicable: bool,
    pub hint: Option<Hint>,
    /// cells[fallible][kind]
    pub cells: [[bool; 6]; 2],
    /// cells that carry `..update` / `return`
    pub upd: [[bool; 6]; 2],
    pub ret: [[bool; 6]; 2],
}

impl Cp {
    pub fn has_kind(&self, k: usize) -> bool {
        self.cells[0][k] || self.cells[1][k]
    }
    pub fn has_from(&self) -> bool {
        self.has_kind(FO) || self.has_kind(FR)
    }
    pub fn has_into(&self) -> bool {
        self.has_kind(OI) || self.has_kind(RI)
    }
    pub fn has_into_existing(&self) -> bool {
        self.has_kind(OIE) || self.has_kind(RIE)
    }
    /// a From cell without `..update` exists (then `#[ghost]` needs a default)
    pub fn from_needs_default(&self) -> bool {
        for f in 0..2 {
            for k in [FO, FR] {
                if self.cells[f][k] && !self.upd[f][k] {
                    return true;
                }
            }
        }
        false
    }
}

pub struct Labels(pub Vec<String>);
impl Labels {
    pub fn add(&mut self, s: &str) {
        if !self.0.iter().any(|x| x == s) {
            self.0.push(s.to_string());
        }
    }
}

pub const CP_TYPES: [&str; 11] = ["D", "A", "B", "path::to::C", "G<u8>", "H::<i16>", "other::D", "v2::A", "G<i8>", "m::Gen<u8>", "m::n::Lt<'a, i32>"];
pub const ERR_TYPES: [&str; 3] = ["E", "my::Err", "Er<u8>"];
const S_FIELDS: [&str; 6] = ["a", "b", "c", "d", "e", "f"];
const D_MEMBERS: [&str; 6] = ["x", "y", "z", "w", "p", "q"];
const FIELD_TYS: [&str; 5] = ["i32", "i64", "String", "u8", "Vec<u8>"];

/// An inline expression in a form the DSL parses as an *action* in every position
/// (never a lone identifier / integer / path, never starting with `path |`).
pub fn expr(t: &mut Tape, tilde_ok: bool, depth: usize) -> String {
    let n = if tilde_ok { 14 } else { 8 };
    match t.below(n) {
        0 => format!("{{ {} }}", 1 + t.below(9)),
        1 => "Default::default()".into(),
        2 => format!("@.q + {}", t.below(10)),
        3 => "{ foo }".into(),
        4 => format!("f(&@, {})", t.below(5)),
        5 => "{{ let k = @.w; k * 2 }}".into(),
        6 => "|v: i32| v + @.n".into(),
        7 => {
            if depth < 2 {
                format!("({}, [{}])", expr(t, tilde_ok, depth + 1), expr(t, false, depth + 1))
            } else {
                "0u8 as i64".into()
            }
        }
        8 => format!("~ + {}", t.below(10)),
        9 => "~.clone()".into(),
        10 => format!("~ * 2 - {}", t.below(4)),
        11 => "@.m + ~".into(),
        12 => "{{ let t = ~; t + 1 }}".into(),
        _ => "~.iter().map(|p| p.into()).collect::<Vec<_>>()".into(),
    }
}

/// Exact cover of a set of kind cells (one fallibility) by instruction names, random mix of shortcuts and basics.
pub fn cover_cells(t: &mut Tape, cells: [bool; 6], fallible: bool) -> Vec<String> {
    let mut left = cells;
    let mut out = vec![];
    let shortcuts: [(&str, &[usize]); 6] = [("map", &[FO, FR, OI, RI]), ("from", &[FO, FR]), ("into", &[OI, RI]), ("map_owned", &[FO, OI]), ("map_ref", &[FR, RI]), ("into_existing", &[OIE, RIE])];
    // try shortcuts in a tape-driven order
    let mut order: Vec<usize> = (0..shortcuts.len()).collect();
    t.shuffle(&mut order);
    for i in order {
        let (name, ks) = shortcuts[i];
        if ks.iter().all(|k| left[*k]) && t.chance(2, 3) {
            for k in ks {
                left[*k] = false;
            }
            out.push(if fallible { format!("try_{}", name) } else { name.to_string() });
        }
    }
    for k in 0..6 {
        if left[k] {
            out.push(basic_name(k, fallible).to_string());
        }
    }
    t.shuffle(&mut out);
    out
}

fn trait_params(t: &mut Tape, is_enum: bool, allow: bool, existing: bool, lab: &mut Labels) -> Vec<TParam> {
    let mut ps = vec![];
    if !allow || !t.chance(1, 4) {
        return ps;
    }
    if t.chance(1, 3) {
        let n = 1 + t.below(2);
        let mut vars = vec![];
        for i in 0..n {
            vars.push((format!("v{}", i), if i == 0 { expr(t, false, 1) } else { format!("v{} + 1", i - 1) }));
        }
        ps.push(TParam::Vars(vars));
        lab.add("param:vars");
    }
    if t.chance(1, 4) {
        ps.push(TParam::Attribute(t.pick(&["inline", "inline(always)", "allow(unused)"]).to_string()));
        lab.add("param:attribute");
    }
    if t.chance(1, 5) {
        ps.push(TParam::ImplAttribute(t.pick(&["cfg(any(foo, bar))", "allow(dead_code)"]).to_string()));
        lab.add("param:impl_attribute");
    }
    if t.chance(1, 5) {
        ps.push(TParam::InnerAttribute(t.pick(&["allow(unused_variables)", "allow(clippy::all)"]).to_string()));
        lab.add("param:inner_attribute");
    }
    t.shuffle(&mut ps);
    match t.below(6) {
        0 if !existing => {
            // `..expr` is struct-update syntax: it has no documented meaning for into_existing
            ps.push(TParam::Update(t.pick(&["Default::default()", "upd()", "get_default(&@)"]).to_string()));
            lab.add("param:update");
        }
        1 => {
            ps.push(TParam::Return(t.pick(&["make(@)", "Self(@.to_string())", "{ todo!() }"]).to_string()));
            lab.add("param:return");
        }
        2 if is_enum => {
            ps.push(TParam::DefaultCase(t.pick(&["panic!(\"unsupported\")", "Err(E(9))?", "todo!()"]).to_string()));
            lab.add("param:default_case");
        }
        _ => {}
    }
    ps
}

/// Draw the counterparts and the trait instructions that request their kinds.
pub fn gen_counterparts(t: &mut Tape, o: &GenOpts, is_enum: bool, tuple_cp_ok: bool, lab: &mut Labels) -> (Vec<Cp>, Vec<TraitInstr>) {
    let n = t.range(o.min_cp, o.max_cp);
    let mut tys: Vec<String> = vec![];
    let mut pool: Vec<&str> = CP_TYPES.to_vec();
    let k = t.below(3);
    pool.rotate_left(k);
    for i in 0..n {
        if tuple_cp_ok && !is_enum && i == n - 1 && t.chance(1, 8) {
            tys.push("(i32, i64)".into());
        } else {
            // mostly the first few names, sometimes the exotic forms
            let idx = if t.chance(1, 3) { 3 + t.below(8) } else { t.below(3) };
            let mut c = pool[idx % pool.len()].to_string();
            let mut bump = 0;
            while tys.contains(&c) {
                bump += 1;
                c = pool[(idx + bump) % pool.len()].to_string();
            }
            tys.push(c);
        }
    }
    lab.add(&format!("counterparts:{}", n));

    let mut cps = vec![];
    let mut instrs = vec![];
    for ty in tys {
        let nameless = ty.starts_with('(');
        let hint = if nameless || is_enum {
            None
        } else {
            match t.below(10) {
                0 | 1 => Some(Hint::Struct),
                2 | 3 => Some(Hint::Tuple),
                4 => Some(Hint::Unit),
                _ => None,
            }
        };
        if let Some(h) = hint {
            lab.add(&format!("hint:{:?}", h));
        }
        let mut cells = [[false; 6]; 2];
        // which fallibilities
        let fmode = t.weighted(&[5, 2, 2]); // infallible only / fallible only / both
        for f in 0..2 {
            let want = match fmode {
                0 => f == 0,
                1 => f == 1,
                _ => true,
            };
            if !want {
                continue;
            }
            let full = t.chance(1, 3);
            let kmax = if is_enum && !(o.enum_into_existing && t.chance(1, 6)) { 4 } else { 6 };
            let mut any = false;
            for k in 0..kmax {
                if full && k < 4 || t.chance(2, 5) {
                    cells[f][k] = true;
                    any = true;
                }
            }
            if !any {
                cells[f][t.below(kmax)] = true;
            }
        }
        if fmode == 2 {
            lab.add("fallible+infallible");
        } else if fmode == 1 {
            lab.add("fallible-only");
        }
        let mut cp = Cp { ty: ty.clone(), dedicable: !nameless, hint, cells, upd: [[false; 6]; 2], ret: [[false; 6]; 2] };
        for f in 0..2 {
            if !cells[f].iter().any(|x| *x) {
                continue;
            }
            let names = cover_cells(t, cells[f], f == 1);
            for name in names {
                let params = trait_params(t, is_enum, o.allow_params, name.contains("existing"), lab);
                let (ks, _) = trait_name_cells(&name).unwrap();
                for p in &params {
                    for k in &ks {
                        match p {
                            TParam::Update(_) => cp.upd[f][*k] = true,
                            TParam::Return(_) => cp.ret[f][*k] = true,
                            _ => {}
                        }
                    }
                }
                if trait_name_cells(&name).unwrap().0.len() > 1 {
                    lab.add("trait-shortcut");
                }
                instrs.push(TraitInstr { name, ty: ty.clone(), hint, err: if f == 1 { Some(t.pick(&ERR_TYPES).to_string()) } else { None }, params });
            }
        }
        cps.push(cp);
    }
    (cps, instrs)
}

fn pick_ded(t: &mut Tape, cps: &[Cp], lab: &mut Labels) -> Option<String> {
    let d: Vec<&Cp> = cps.iter().filter(|c| c.dedicable).collect();
    if d.is_empty() || !t.chance(1, 3) {
        return None;
    }
    lab.add("dedicated");
    Some(t.pick(&d).ty.clone())
}

fn applicable<'a>(cps: &'a [Cp], ded: &Option<String>) -> Vec<&'a Cp> {
    cps.iter().filter(|c| ded.as_ref().map_or(true, |d| &c.ty == d)).collect()
}

fn member_map_name(t: &mut Tape, o: &GenOpts) -> String {
    let _ = o;
    // favour the common names, reach all 21
    if t.chance(1, 2) {
        t.pick(&["map", "from", "into", "map_owned", "map_ref"]).to_string()
    } else {
        t.pick(&MEMBER_MAP_NAMES).to_string()
    }
}

fn gen_parent_fields(t: &mut Tape, depth: usize, need_types: bool, lab: &mut Labels) -> Vec<ParentField> {
    let n = 1 + t.below(3);
    let mut out = vec![];
    // the struct flattened at this level may itself be a tuple struct: its members are indices and each leaf says which
    // member of the counterpart it maps to
    let tuple_level = t.chance(1, 6);
    if tuple_level {
        lab.add("parent:tuple-level");
    }
    for i in 0..n {
        let member = if tuple_level { format!("{}", i) } else { format!("{}{}", ["p", "q", "r"][i % 3], depth) };
        let mut attrs = vec![];
        if tuple_level {
            // `map` names the counterpart member for every kind (into_existing falls back to into)
            let name = "map".to_string();
            attrs.push((name, if t.chance(1, 3) { format!("t{}{}, {}", depth, i, expr(t, true, 1)) } else { format!("t{}{}", depth, i) }));
        } else if t.chance(1, 3) {
            let name = t.pick(&["map", "from", "into", "map_owned", "into_existing", "from_ref"]).to_string();
            let args = match t.below(3) {
                0 => format!("{}x", member),
                1 => format!("{}x, {}", member, expr(t, true, 1)),
                _ => expr(t, true, 1),
            };
            attrs.push((name, args));
            lab.add("parent:child-attr");
        }
        let nested = if depth < 2 && t.chance(1, 4) {
            lab.add("parent:nested");
            Some(gen_parent_fields(t, depth + 1, need_types, lab))
        } else {
            None
        };
        let ty = if nested.is_some() && (need_types || t.chance(1, 3)) { Some(format!("Inner{}", depth)) } else { None };
        out.push(ParentField { attrs: if nested.is_some() { vec![] } else { attrs }, nested, member, ty });
    }
    out
}

struct FieldGen {
    attrs: Vec<Instr>,
    ty: String,
}

/// Member instructions for one struct field (or enum-variant payload field), valid by construction.
fn gen_field_instrs(t: &mut Tape, o: &GenOpts, cps: &[Cp], idx: usize, s_named: bool, in_variant: bool, needs_name: bool, child_paths: &mut Vec<String>, lab: &mut Labels) -> FieldGen {
    let mut attrs: Vec<Instr> = vec![];
    let mut ty = t.pick(&FIELD_TYS).to_string();
    let d_member = |t: &mut Tape| -> String {
        if s_named || needs_name {
            if t.chance(1, 6) && !needs_name && !in_variant {
                format!("{}", t.below(4))
            } else {
                D_MEMBERS[(idx + t.below(3)) % 6].to_string()
            }
        } else {
            format!("{}", t.below(4))
        }
    };

    let role = if in_variant { t.weighted(&[5, 5, 2, 0, 0, 0]) } else { t.weighted(&[5, 6, 2, 2, 2, 1]) };
    match role {
        0 => {}
        1 => {
            // mapping instructions
            let n = 1 + t.weighted(&[4, 3, 2, 1]);
            for _ in 0..n {
                let name = member_map_name(t, o);
                let ded = pick_ded(t, cps, lab);
                let (member, action) = match t.below(3) {
                    0 => (Some(d_member(t)), None),
                    1 => (Some(d_member(t)), Some(expr(t, true, 0))),
                    _ => (None, Some(expr(t, true, 0))),
                };
                if action.is_some() {
                    lab.add("member:action");
                }
                if member.is_some() {
                    lab.add("member:rename");
                }
                if trait_name_cells(&name).map_or(false, |c| c.0.len() > 1) {
                    lab.add("member-shortcut");
                }
                attrs.push(Instr::Member(MemberInstr { name, ded, member, action }));
            }
        }
        2 => {
            // ghost
            let n = 1 + t.below(2);
            for i in 0..n {
                let name = if o.bare_names_only { "ghost" } else { *t.pick(&["ghost", "ghost", "ghost_owned", "ghost_ref"]) }.to_string();
                let ded = if i == 0 && n == 1 { pick_ded(t, cps, lab) } else { pick_ded(t, cps, lab) };
                let needs_default = applicable(cps, &ded).iter().any(|c| c.from_needs_default());
                let action = if needs_default || t.chance(1, 2) { Some(expr(t, false, 0)) } else { None };
                lab.add(if action.is_some() { "ghost:default" } else { "ghost:bare" });
                if name != "ghost" {
                    lab.add("ghost:owned/ref");
                }
                attrs.push(Instr::Ghost { name, ded, action });
            }
        }
        3 => {
            // child
            let ded = pick_ded(t, cps, lab);
            let depth = 1 + t.weighted(&[4, 3, 1]);
            let mut comps: Vec<String> = vec![];
            for dd in 0..depth {
                comps.push(format!("{}{}", ["k", "l", "m"][t.below(2 + (dd > 0) as usize)], dd));
            }
            let path = comps.join(".");
            if !child_paths.contains(&path) {
                child_paths.push(path.clone());
            }
            lab.add(&format!("child:depth{}", depth));
            attrs.push(Instr::Child { ded, path });
            if t.chance(1, 3) {
                let name = member_map_name(t, o);
                let member = if t.coin() { Some(d_member(t)) } else { None };
                let action = if member.is_none() || t.coin() { Some(expr(t, true, 0)) } else { None };
                attrs.push(Instr::Member(MemberInstr { name, ded: None, member, action }));
                lab.add("child+map");
            }
        }
        4 => {
            // parent
            let ded = pick_ded(t, cps, lab);
            ty = "Inner".into();
            let dedicable: Vec<&Cp> = cps.iter().filter(|c| c.dedicable).collect();
            if dedicable.len() >= 2 && t.chance(1, 4) {
                // a bare #[parent(A)] and a parameterised #[parent(B| ..)] on one member, each dedicated to its counterpart
                lab.add("parent:bare+params-dedicated");
                let a = dedicable[0].ty.clone();
                let b = dedicable[1].ty.clone();
                let need_types = dedicable[1].has_from();
                let mut two = vec![Instr::Parent { ded: Some(a), fields: None }, Instr::Parent { ded: Some(b), fields: Some(gen_parent_fields(t, 0, need_types, lab)) }];
                if t.coin() {
                    two.reverse();
                }
                attrs.extend(two);
            } else if t.coin() {
                lab.add("parent:bare");
                attrs.push(Instr::Parent { ded, fields: None });
            } else {
                let need_types = applicable(cps, &ded).iter().any(|c| c.has_from());
                if ded.is_some() && !need_types && cps.iter().any(|c| c.has_from()) && t.coin() {
                    // dedicated to a counterpart that is only converted *into*: the member need not be a struct with a name,
                    // a tuple will do (its type name is only needed where a From conversion has to build it)
                    lab.add("parent:params-on-tuple-typed-member");
                    ty = "(i32, i64)".into();
                    let fields = (0..2).map(|i| ParentField { attrs: vec![("map".to_string(), format!("tm{}", i))], nested: None, member: format!("{}", i), ty: None }).collect();
                    attrs.push(Instr::Parent { ded, fields: Some(fields) });
                } else {
                    lab.add("parent:params");
                    attrs.push(Instr::Parent { ded, fields: Some(gen_parent_fields(t, 0, need_types, lab)) });
                }
            }
        }
        _ => {
            // as_type
            if !o.bare_names_only {
                let ded = pick_ded(t, cps, lab);
                let member = if t.coin() { Some(d_member(t)) } else { None };
                ty = "i16".into();
                lab.add("as_type");
                attrs.push(Instr::AsType { ded, member, ty: t.pick(&["i32", "i64", "f32"]).to_string() });
            }
        }
    }

    if needs_name {
        // Tuple member facing an `as {}` counterpart: an infallible default mapping instruction that names the
        // counterpart field must be found for every kind (README "Type hints"); ghost / parent fields are exempt.
        let exempt = attrs.iter().any(|i| matches!(i, Instr::Ghost { ded: None, name, .. } if name == "ghost") || matches!(i, Instr::Parent { ded: None, .. }));
        if !exempt {
            attrs.retain(|i| !matches!(i, Instr::Member(_) | Instr::AsType { .. } | Instr::Ghost { .. } | Instr::Parent { .. }));
            let member = D_MEMBERS[idx % 6].to_string();
            let action = if t.chance(1, 3) { Some(expr(t, true, 0)) } else { None };
            attrs.insert(0, Instr::Member(MemberInstr { name: "map".into(), ded: None, member: Some(member), action }));
            lab.add("tuple-as-struct:named");
        }
    }
    FieldGen { attrs, ty }
}

/// Spell a list of instructions as attributes: bare / wrapped / grouped.
pub fn spell(t: &mut Tape, o: &GenOpts, instrs: Vec<Instr>, lab: &mut Labels) -> Vec<Attr> {
    let mut out: Vec<Attr> = vec![];
    if !o.random_spelling {
        return instrs.into_iter().map(Attr::auto).collect();
    }
    let mut group: Vec<Instr> = vec![];
    for i in instrs {
        let can_bare = has_bare_form(&i.name());
        let mode = if can_bare { t.weighted(&[6, 2, 2]) } else { 1 + t.weighted(&[2, 2]) };
        match mode {
            0 => {
                if !group.is_empty() {
                    out.push(Attr::wrapped(std::mem::take(&mut group)));
                }
                out.push(Attr::bare(i));
            }
            1 => {
                if !group.is_empty() {
                    out.push(Attr::wrapped(std::mem::take(&mut group)));
                }
                lab.add("spelling:wrapped");
                out.push(Attr::wrapped(vec![i]));
            }
            _ => {
                if !group.is_empty() {
                    lab.add("spelling:grouped");
                }
                group.push(i);
            }
        }
    }
    if !group.is_empty() {
        out.push(Attr::wrapped(group));
    }
    out
}

fn gen_struct(t: &mut Tape, o: &GenOpts, lab: &mut Labels) -> Item {
    let shape = match t.weighted(&[5, 3, 1]) {
        0 => Shape::Named,
        1 => Shape::Tuple,
        _ => Shape::Unit,
    };
    lab.add(&format!("struct:{:?}", shape));
    let (mut cps, tinstrs) = gen_counterparts(t, o, false, true, lab);
    if shape == Shape::Unit {
        for c in cps.iter_mut() {
            if c.hint == Some(Hint::Struct) || c.hint == Some(Hint::Tuple) {
                // fine at token level; keep
            }
        }
    }
    let nfields = if shape == Shape::Unit { 0 } else if o.repeat_heavy { 3 + t.below(5) } else { t.weighted(&[1, 3, 4, 4, 2, 1]) };
    let needs_name = shape == Shape::Tuple && cps.iter().any(|c| c.hint == Some(Hint::Struct));
    let mut child_paths: Vec<String> = vec![];
    let mut fields = vec![];
    for i in 0..nfields {
        let fg = gen_field_instrs(t, o, &cps, i, shape == Shape::Named, false, needs_name, &mut child_paths, lab);
        fields.push((fg.attrs, fg.ty));
    }

    let mut type_instrs: Vec<Instr> = tinstrs.into_iter().map(Instr::Trait).collect();

    // child_parents: every prefix of every child path, for counterparts that need it (Into kinds) — always listed.
    let mut cp_entries: Vec<(String, String, Option<Hint>)> = vec![];
    for p in &child_paths {
        let comps: Vec<&str> = p.split('.').collect();
        for n in 1..=comps.len() {
            let pre = comps[..n].join(".");
            if !cp_entries.iter().any(|e| e.0 == pre) {
                // a tuple S needs member names to fill a named intermediate struct (README "Type hints"); keep to positional there
                let hint = if t.chance(1, 5) { Some(if t.coin() || shape != Shape::Named { Hint::Tuple } else { Hint::Struct }) } else { None };
                cp_entries.push((pre.clone(), format!("T_{}", pre.replace('.', "_")), hint));
            }
        }
    }
    // intermediate structs that only child-path ghosts reach (no #[child] member names them): two sibling paths, so that
    // the order in which they are built is observable
    let mut ghost_only: Vec<String> = vec![];
    if shape == Shape::Named && !o.bare_names_only && t.chance(1, 7) {
        lab.add("ghosts:ghost-only-child-paths");
        for p in ["gx", "gy", "gx.gz"].iter().take(2 + t.below(2)) {
            ghost_only.push(p.to_string());
            if !cp_entries.iter().any(|e| e.0 == *p) {
                cp_entries.push((p.to_string(), format!("T_{}", p.replace('.', "_")), if t.chance(1, 5) { Some(Hint::Struct) } else { None }));
            }
        }
    }
    let mut tuple_in_dedicated: Vec<String> = vec![];
    if !cp_entries.is_empty() {
        t.shuffle(&mut cp_entries);
        // one-entry-per-line style: a trailing comma after the last entry (the type text carries it; hint-less entries only)
        let mut rendered_entries = cp_entries.clone();
        if t.chance(1, 4) {
            if let Some(last) = rendered_entries.last_mut() {
                if last.2.is_none() {
                    last.1 = format!("{},", last.1);
                    lab.add("trailing-comma");
                }
            }
        }
        type_instrs.push(Instr::ChildParents { ded: None, entries: rendered_entries });
        if t.chance(1, 4) {
            if let Some(d) = pick_ded(t, &cps, lab) {
                lab.add("child_parents:dedicated");
                // the dedicated copy may describe the intermediate structs with other forms than the default one
                // (the counterparts are different types); ghost-only paths stay struct-form (their ghosts are named)
                let mut ded_entries = cp_entries.clone();
                if shape == Shape::Named && t.coin() {
                    lab.add("child_parents:dedicated-with-other-hints");
                    for e in ded_entries.iter_mut() {
                        if !ghost_only.contains(&e.0) && t.coin() {
                            e.2 = match e.2 {
                                Some(Hint::Tuple) => None,
                                _ => {
                                    tuple_in_dedicated.push(e.0.clone());
                                    Some(Hint::Tuple)
                                }
                            };
                        }
                    }
                }
                if t.coin() {
                    let at = type_instrs.len() - 1;
                    type_instrs.insert(at, Instr::ChildParents { ded: Some(d), entries: ded_entries });
                } else {
                    type_instrs.push(Instr::ChildParents { ded: Some(d), entries: ded_entries });
                }
            }
        }
    }

    // struct-level ghosts: the entry names must fit the form of every counterpart they apply to
    // (named member for a struct-form counterpart, trailing index for a tuple-form one)
    if t.chance(1, 3) || !ghost_only.is_empty() {
        let form = |c: &Cp| -> Hint {
            match c.hint {
                Some(h) => h,
                None => {
                    if c.ty.starts_with('(') || shape != Shape::Named {
                        Hint::Tuple
                    } else {
                        Hint::Struct
                    }
                }
            }
        };
        let forms: Vec<Hint> = cps.iter().map(|c| form(c)).collect();
        let uniform = forms.iter().all(|f| *f == forms[0]) && forms[0] != Hint::Unit;
        let (ded, f): (Option<String>, Option<Hint>) = if uniform {
            (None, Some(forms[0]))
        } else {
            let cand: Vec<&Cp> = cps.iter().filter(|c| c.dedicable && form(c) != Hint::Unit).collect();
            if cand.is_empty() {
                (None, None)
            } else {
                let c = *t.pick(&cand);
                lab.add("ghosts:dedicated");
                (Some(c.ty.clone()), Some(form(c)))
            }
        };
        if let Some(f) = f {
            let names: Vec<&str> = if o.bare_names_only {
                vec!["ghosts"]
            } else {
                match t.below(3) {
                    0 => vec!["ghosts"],
                    1 => vec!["ghosts_owned", "ghosts_ref"],
                    _ => vec!["ghosts_owned"],
                }
            };
            for name in names {
                let mut entries = vec![];
                for (i, p) in ghost_only.iter().enumerate() {
                    entries.push(GhostEntry { child_path: Some(p.clone()), ident: format!("go{}", i), action: expr(t, false, 0) });
                }
                let n = 1 + t.below(3);
                for i in 0..n {
                    // nested (child-path) ghosts: named S, entry not hinted as tuple
                    let nested: Vec<&(String, String, Option<Hint>)> = cp_entries.iter().filter(|e| shape == Shape::Named && e.2 != Some(Hint::Tuple) && !tuple_in_dedicated.contains(&e.0)).collect();
                    if !nested.is_empty() && t.chance(1, 3) {
                        lab.add("ghosts:child-path");
                        entries.push(GhostEntry { child_path: Some(t.pick(&nested).0.clone()), ident: format!("gn{}", i), action: expr(t, false, 0) });
                    } else {
                        let ident = if f == Hint::Struct { format!("g{}", i) } else { format!("{}", nfields + i) };
                        entries.push(GhostEntry { child_path: None, ident, action: expr(t, false, 0) });
                    }
                }
                lab.add("ghosts");
                type_instrs.push(Instr::Ghosts { name: name.to_string(), ded: ded.clone(), entries });
            }
        }
    }

    let mut generics = String::new();
    let mut where_clause = String::new();
    if o.allow_generics && t.chance(1, 4) {
        generics = t.pick(&["<T>", "<'a, T: Copy>", "<T, const N: usize>", "<'a>"]).to_string();
        lab.add("generics");
        if t.chance(1, 3) && generics.contains('T') {
            where_clause = "where T: Default".into();
        }
    }
    if t.chance(1, 6) {
        lab.add("where_clause");
        type_instrs.push(Instr::Where { ded: None, preds: t.pick(&["T: Clone", "T: Clone, U: Into<T>", "for<'x> &'x T: Copy"]).to_string() });
        if t.chance(1, 2) {
            if let Some(d) = pick_ded(t, &cps, lab) {
                lab.add("where_clause:dedicated");
                type_instrs.push(Instr::Where { ded: Some(d), preds: "T: Copy + Default".into() });
            }
        }
    }

    // keep trait instructions' relative order random w.r.t. the others
    if t.chance(1, 3) {
        t.shuffle(&mut type_instrs);
    }

    if o.allow_repeat || o.member_repeat_only {
        crate::gen_repeat::decorate_struct_repeats(t, &mut fields, o.repeat_heavy, lab);
    }
    if o.allow_repeat {
        crate::gen_repeat::decorate_trait_repeats(t, &mut type_instrs, lab);
    }

    let attrs = spell(t, o, type_instrs, lab);
    let fdefs: Vec<FieldDef> = fields
        .into_iter()
        .enumerate()
        .map(|(i, (ins, ty))| FieldDef { attrs: spell(t, o, ins, lab), name: if shape == Shape::Named { Some(S_FIELDS[i % 6].to_string()) } else { None }, ty })
        .collect();
    let _ = &mut cps;
    Item { attrs, name: "S".into(), generics, where_clause, body: Body::Struct(shape, fdefs) }
}

fn gen_enum(t: &mut Tape, o: &GenOpts, lab: &mut Labels) -> Item {
    let primitive = o.allow_primitive_enum && t.chance(1, 5);
    if primitive {
        return gen_primitive_enum(t, o, lab);
    }
    lab.add("enum");
    let (cps, tinstrs) = gen_counterparts(t, o, true, false, lab);
    let nv = if o.repeat_heavy { 2 + t.below(4) } else { 1 + t.weighted(&[2, 4, 4, 2, 1]) };
    let mut variants: Vec<(Vec<Instr>, String, Shape, Vec<(Vec<Instr>, String)>)> = vec![];
    let mut dummy_paths = vec![];
    for vi in 0..nv {
        let shape = match t.weighted(&[3, 3, 3]) {
            0 => Shape::Unit,
            1 => Shape::Tuple,
            _ => Shape::Named,
        };
        lab.add(&format!("variant:{:?}", shape));
        let nf = if shape == Shape::Unit { 0 } else if o.repeat_heavy { 2 + t.below(3) } else { 1 + t.below(3) };
        let mut vattrs: Vec<Instr> = vec![];
        // type hint
        let mut mixed_hints = false;
        let mut hint: Option<Hint> = None;
        if t.chance(1, 4) {
            let h = match t.below(3) {
                0 => Hint::Struct,
                1 => Hint::Tuple,
                _ => Hint::Unit,
            };
            hint = Some(h);
            lab.add(&format!("type_hint:{:?}", h));
            vattrs.push(Instr::TypeHint { ded: None, hint: h });
            if t.chance(1, 3) {
                if let Some(d) = pick_ded(t, &cps, lab) {
                    let h2 = if shape == Shape::Named {
                        match h {
                            Hint::Struct => Hint::Tuple,
                            _ => Hint::Struct,
                        }
                    } else {
                        h
                    };
                    lab.add("type_hint:dedicated");
                    mixed_hints = h2 != h;
                    let dedicated = Instr::TypeHint { ded: Some(d), hint: h2 };
                    if t.coin() {
                        vattrs.push(dedicated);
                    } else {
                        vattrs.insert(vattrs.len() - 1, dedicated);
                    }
                }
            }
        }
        let needs_name = shape == Shape::Tuple && hint == Some(Hint::Struct);
        match t.weighted(&[5, 3, 2, 2, 2]) {
            0 => {}
            1 => {
                lab.add("variant:rename");
                let name = member_map_name(t, o);
                let name = if name.contains("existing") { "map".to_string() } else { name };
                vattrs.push(Instr::Member(MemberInstr { name, ded: pick_ded(t, &cps, lab), member: Some(format!("W{}", vi)), action: None }));
            }
            2 => {
                lab.add("variant:expr");
                let body = match shape {
                    Shape::Unit => "~".to_string(),
                    Shape::Tuple => format!("~({})", (0..nf).map(|i| format!("f{} + 1", i)).collect::<Vec<_>>().join(", ")),
                    Shape::Named => format!("~ {{ {} }}", (0..nf).map(|i| format!("{}: *{}", S_FIELDS[i], S_FIELDS[i])).collect::<Vec<_>>().join(", ")),
                };
                let both = t.coin();
                if both {
                    vattrs.push(Instr::Member(MemberInstr { name: "from".into(), ded: None, member: None, action: Some(body.clone()) }));
                    vattrs.push(Instr::Member(MemberInstr { name: "into".into(), ded: None, member: None, action: Some(body) }));
                } else {
                    vattrs.push(Instr::Member(MemberInstr { name: "map".into(), ded: None, member: Some(format!("W{}", vi)), action: Some(body) }));
                }
            }
            3 => {
                lab.add("variant:ghost");
                let name = if o.bare_names_only { "ghost" } else { *t.pick(&["ghost", "ghost", "ghost_owned", "ghost_ref"]) }.to_string();
                let action = if t.coin() { Some(t.pick(&["{ D::V0 }", "Err(E(1))?", "panic!()"]).to_string()) } else { None };
                vattrs.push(Instr::Ghost { name, ded: pick_ded(t, &cps, lab), action });
            }
            _ => {
                // a D-only payload member must be named after the counterpart variant's form: skip when forms differ per counterpart
                if shape != Shape::Unit && !mixed_hints {
                    lab.add("variant:ghosts");
                    let ident = if shape == Shape::Named && hint != Some(Hint::Tuple) || hint == Some(Hint::Struct) { "gz".to_string() } else { format!("{}", nf) };
                    let name = if o.bare_names_only { "ghosts" } else { *t.pick(&["ghosts", "ghosts", "ghosts_owned", "ghosts_ref"]) }.to_string();
                    vattrs.push(Instr::Ghosts { name, ded: pick_ded(t, &cps, lab), entries: vec![GhostEntry { child_path: None, ident, action: expr(t, false, 1) }] });
                }
            }
        }
        let mut fs = vec![];
        for i in 0..nf {
            let fg = gen_field_instrs(t, o, &cps, i, shape == Shape::Named, true, needs_name, &mut dummy_paths, lab);
            fs.push((fg.attrs, fg.ty));
        }
        variants.push((vattrs, format!("V{}", vi), shape, fs));
    }

    let mut type_instrs: Vec<Instr> = tinstrs.into_iter().map(Instr::Trait).collect();
    if t.chance(1, 3) {
        lab.add("enum:ghosts");
        let n = 1 + t.below(3);
        let mut entries = vec![];
        for i in 0..n {
            let ident = match t.below(3) {
                0 => format!("X{}", i),
                1 => format!("X{}(x, ..)", i),
                _ => format!("X{} {{ q, .. }}", i),
            };
            entries.push(GhostEntry { child_path: None, ident, action: t.pick(&["{ S::V0 }", "Err(E(2))?", "todo!()", "S::V0"]).to_string() });
        }
        let name = if o.bare_names_only { "ghosts" } else { *t.pick(&["ghosts", "ghosts", "ghosts_owned", "ghosts_ref"]) }.to_string();
        type_instrs.push(Instr::Ghosts { name, ded: pick_ded(t, &cps, lab), entries });
    }
    if t.chance(1, 8) {
        type_instrs.push(Instr::Where { ded: pick_ded(t, &cps, lab), preds: "T: Clone".into() });
        lab.add("where_clause");
    }
    if t.chance(1, 3) {
        t.shuffle(&mut type_instrs);
    }
    if o.allow_repeat || o.member_repeat_only {
        crate::gen_repeat::decorate_enum_repeats(t, &mut variants, o.repeat_heavy, lab);
    }
    if o.allow_repeat {
        crate::gen_repeat::decorate_trait_repeats(t, &mut type_instrs, lab);
    }
    let attrs = spell(t, o, type_instrs, lab);
    let vdefs = variants
        .into_iter()
        .map(|(va, name, shape, fs)| VariantDef {
            attrs: spell(t, o, va, lab),
            name,
            shape,
            fields: fs.into_iter().enumerate().map(|(i, (ins, ty))| FieldDef { attrs: spell(t, o, ins, lab), name: if shape == Shape::Named { Some(S_FIELDS[i % 6].to_string()) } else { None }, ty }).collect(),
        })
        .collect();
    Item { attrs, name: "S".into(), generics: String::new(), where_clause: String::new(), body: Body::Enum(vdefs) }
}

/// Enum mapped to a primitive through literal / pattern (README "Mapping to primitive types").
fn gen_primitive_enum(t: &mut Tape, o: &GenOpts, lab: &mut Labels) -> Item {
    lab.add("enum:primitive");
    let strs = t.chance(1, 3);
    let ty = if strs { "StaticStr" } else { *t.pick(&["i32", "u8", "i64"]) };
    let fallible = t.chance(1, 3);
    // kinds: From always allowed; Into only if every pattern variant carries #[into(..)]
    let mut cells = [false; 6];
    for k in [FO, FR, OI, RI] {
        if t.chance(1, 2) {
            cells[k] = true;
        }
    }
    if !cells.iter().any(|x| *x) {
        cells[FO] = true;
    }
    let has_into = cells[OI] || cells[RI];
    let names = cover_cells(t, cells, fallible);
    let default_case = if t.chance(3, 4) { Some(if fallible { "Err(\"unrepresentable\")?" } else { "panic!(\"unsupported\")" }.to_string()) } else { None };
    let mut type_instrs = vec![];
    for name in names {
        let mut params = vec![];
        if let Some(d) = &default_case {
            params.push(TParam::DefaultCase(d.clone()));
        }
        type_instrs.push(Instr::Trait(TraitInstr { name, ty: ty.to_string(), hint: None, err: if fallible { Some("StaticStr".into()) } else { None }, params }));
    }
    let nv = 1 + t.below(5);
    let mut vdefs = vec![];
    for vi in 0..nv {
        let lit = |t: &mut Tape| -> String {
            if strs {
                format!("\"{}\"", t.pick(&["a", "bb", "c~", "@d"]))
            } else {
                format!("{}", t.below(50) * 5)
            }
        };
        let mut vattrs = vec![];
        let mut fields = vec![];
        let mut shape = Shape::Unit;
        match t.weighted(&[4, 3, 1]) {
            0 => {
                lab.add("literal");
                vattrs.push(Instr::Literal { ded: None, tokens: lit(t) });
            }
            1 => {
                lab.add("pattern");
                let tokens = if strs {
                    format!("{} | {}", lit(t), lit(t))
                } else {
                    let a = t.below(100);
                    match t.below(3) {
                        0 => format!("{}..={}", a, a + 1 + t.below(50)),
                        1 => format!("{} | {}", a, a + 1 + t.below(9)),
                        _ => format!("{}..", a),
                    }
                };
                vattrs.push(Instr::Pattern { ded: None, tokens });
                if has_into {
                    vattrs.push(Instr::Member(MemberInstr { name: "into".into(), ded: None, member: None, action: Some(format!("{{ {} }}", lit(t))) }));
                }
            }
            _ => {
                lab.add("pattern:catch-all");
                vattrs.push(Instr::Pattern { ded: None, tokens: "_".into() });
                shape = Shape::Tuple;
                if has_into {
                    vattrs.push(Instr::Member(MemberInstr { name: "into".into(), ded: None, member: None, action: Some("{ f0 }".into()) }));
                }
                fields.push(FieldDef { attrs: vec![Attr::bare(Instr::Member(MemberInstr { name: "from".into(), ded: None, member: None, action: Some("@".into()) }))], name: None, ty: ty.to_string() });
            }
        }
        vdefs.push(VariantDef { attrs: spell(t, o, vattrs, lab), name: format!("V{}", vi), shape, fields });
    }
    Item { attrs: spell(t, o, type_instrs, lab), name: "S".into(), generics: String::new(), where_clause: String::new(), body: Body::Enum(vdefs) }
}

/// The valid-mode L1 generator.
pub fn gen_item(t: &mut Tape, o: &GenOpts) -> (Item, Vec<String>) {
    let mut lab = Labels(vec![]);
    let want_enum = if o.allow_struct && o.allow_enum { t.chance(2, 5) } else { o.allow_enum };
    let item = if want_enum { gen_enum(t, o, &mut lab) } else { gen_struct(t, o, &mut lab) };
    (item, lab.0)
}
