use syn as synx;
include!("../dump_common.rs");
