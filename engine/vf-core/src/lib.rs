//! Verification engine for Artem-Romanenia/o2o (property-based testing and fuzzing).
pub mod dsl;
pub mod e2;
pub mod e2e;
pub mod plan_enum;
pub mod plan_flat;
pub mod plan_flavours;
pub mod plan_parent;
pub mod plan_struct;
pub mod evidence;
pub mod fuzzing;
pub mod gen;
pub mod gen_repeat;
pub mod items;
pub mod known;
pub mod props;
pub mod runner;
pub mod tape;
pub mod wild;
pub mod xp;
pub mod xproc;

pub fn verif_root() -> String {
    std::env::var("VF_ROOT").unwrap_or_else(|_| "/verif".to_string())
}

pub fn repo_root() -> String {
    std::env::var("VF_REPO").unwrap_or_else(|_| "/repo".to_string())
}
