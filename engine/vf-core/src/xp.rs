//! In-process access to the code under test: `o2o_impl::expand::derive`.

use std::panic::{catch_unwind, AssertUnwindSafe};
use std::sync::Once;

#[derive(Clone, Debug, PartialEq, Eq)]
pub enum Outcome {
    /// Accepted; the generated tokens.
    Ok(String),
    /// Rejected with diagnostics (in emission order).
    Err(Vec<String>),
    /// `derive` panicked.
    Panic(String),
    /// The text is not a derive input at all (harness-side problem, never a finding by itself).
    NotAnItem(String),
}

impl Outcome {
    pub fn kind(&self) -> &'static str {
        match self {
            Outcome::Ok(_) => "ok",
            Outcome::Err(_) => "err",
            Outcome::Panic(_) => "panic",
            Outcome::NotAnItem(_) => "not-an-item",
        }
    }
    pub fn is_ok(&self) -> bool {
        matches!(self, Outcome::Ok(_))
    }
    pub fn short(&self) -> String {
        match self {
            Outcome::Ok(s) => format!("Ok({} chars)", s.len()),
            Outcome::Err(m) => format!("Err({:?})", m),
            Outcome::Panic(m) => format!("Panic({})", m),
            Outcome::NotAnItem(m) => format!("NotAnItem({})", m),
        }
    }
    /// Diagnostics without the root "Cannot expand o2o macro" line, sorted.
    pub fn err_set(&self) -> Option<Vec<String>> {
        match self {
            Outcome::Err(m) => {
                let mut v: Vec<String> = m.iter().filter(|x| x.as_str() != ROOT_ERR).cloned().collect();
                v.sort();
                Some(v)
            }
            _ => None,
        }
    }
}

pub const ROOT_ERR: &str = "Cannot expand o2o macro";

static HOOK: Once = Once::new();

/// RUST_BACKTRACE is set in this environment; silence panic output from the code under test.
pub fn silence_panics() {
    HOOK.call_once(|| {
        std::panic::set_hook(Box::new(|info| {
            let loc = info.location().map(|l| format!("{}:{}", l.file().rsplit('/').next().unwrap_or(""), l.line())).unwrap_or_default();
            if !IN_DERIVE.with(|c| c.get()) {
                // a panic of the harness itself must stay visible
                eprintln!("vf-core internal panic at {}: {}", loc, info);
            }
            LAST_PANIC_LOC.with(|c| *c.borrow_mut() = loc);
        }));
    });
}

thread_local! {
    static IN_DERIVE: std::cell::Cell<bool> = std::cell::Cell::new(false);
    static LAST_PANIC_LOC: std::cell::RefCell<String> = std::cell::RefCell::new(String::new());
}

/// `file.rs:line` of the most recent panic on this thread.
pub fn last_panic_loc() -> String {
    LAST_PANIC_LOC.with(|c| c.borrow().clone())
}

/// Enclosing `fn` of `file:line` in /repo/o2o-impl/src (stable under line shifts).
fn enclosing_fn(file: &str, line: usize) -> String {
    let path = format!("{}/o2o-impl/src/{}", crate::repo_root(), file);
    let text = match std::fs::read_to_string(&path) {
        Ok(t) => t,
        Err(_) => return "unknown".into(),
    };
    let lines: Vec<&str> = text.lines().collect();
    let mut i = line.min(lines.len());
    while i > 0 {
        i -= 1;
        let l = lines[i].trim_start();
        let l = l.strip_prefix("pub(crate) ").or_else(|| l.strip_prefix("pub ")).unwrap_or(l);
        if let Some(rest) = l.strip_prefix("fn ") {
            return rest.chars().take_while(|c| c.is_alphanumeric() || *c == '_').collect();
        }
    }
    "unknown".into()
}

/// Root-cause signature of a panic: message class + source file + enclosing fn (line numbers are not part of it).
pub fn panic_sig(msg: &str) -> String {
    let loc = msg.rsplit(" @ ").next().unwrap_or("");
    let mut it = loc.split(':');
    let file = it.next().unwrap_or("").to_string();
    let line: usize = it.next().and_then(|x| x.parse().ok()).unwrap_or(0);
    let func = enclosing_fn(&file, line);
    let body = msg.rsplit_once(" @ ").map(|x| x.0).unwrap_or(msg);
    let class = if body.contains("Previous #[repeat] instruction must be terminated") {
        "repeat-unterminated".to_string()
    } else if body.contains("not yet implemented") {
        "todo".to_string()
    } else if let Some(p) = body.find("entered unreachable code") {
        let tag: String = body[p..].chars().filter(|c| c.is_ascii_digit()).collect();
        format!("unreachable{}", tag)
    } else if body.contains("Option::unwrap()") {
        "unwrap-none".to_string()
    } else if body.contains("not supposed to be called in the enum context") {
        "named-fields-on-enum".to_string()
    } else if body.starts_with("Unrecognized literal") {
        // syn 1.0 (lit.rs) on a literal token it predates; the message quotes the literal, which is not part of the class
        "unrecognized-literal".to_string()
    } else if body.contains("index out of bounds") {
        "index-oob".to_string()
    } else {
        body.chars().take(40).map(|c| if c.is_ascii_alphanumeric() { c.to_ascii_lowercase() } else { '-' }).collect()
    };
    format!("panic-{}-{}-{}", class, file.trim_end_matches(".rs"), func)
}

fn panic_msg(p: Box<dyn std::any::Any + Send>) -> String {
    if let Some(s) = p.downcast_ref::<&str>() {
        s.to_string()
    } else if let Some(s) = p.downcast_ref::<String>() {
        s.clone()
    } else {
        "<non-string panic>".into()
    }
}

pub fn parse_input(text: &str) -> Result<syn::DeriveInput, String> {
    IN_DERIVE.with(|c| c.set(true));
    let r = catch_unwind(AssertUnwindSafe(|| syn::parse_str::<syn::DeriveInput>(text)));
    IN_DERIVE.with(|c| c.set(false));
    match r {
        Ok(Ok(di)) => Ok(di),
        Ok(Err(e)) => Err(e.to_string()),
        Err(p) => Err(format!("parser panicked: {}", panic_msg(p))),
    }
}

pub fn expand_parsed(di: &syn::DeriveInput) -> Outcome {
    silence_panics();
    IN_DERIVE.with(|c| c.set(true));
    let r = catch_unwind(AssertUnwindSafe(|| o2o_impl::expand::derive(di)));
    IN_DERIVE.with(|c| c.set(false));
    match r {
        Ok(Ok(ts)) => Outcome::Ok(ts.to_string()),
        Ok(Err(e)) => Outcome::Err(e.into_iter().map(|x| x.to_string()).collect()),
        Err(p) => Outcome::Panic(format!("{} @ {}", panic_msg(p), last_panic_loc())),
    }
}

/// Expand and keep the token stream (for token-level oracles).
pub fn expand_tokens(di: &syn::DeriveInput) -> Result<proc_macro2::TokenStream, Outcome> {
    silence_panics();
    IN_DERIVE.with(|c| c.set(true));
    let r = catch_unwind(AssertUnwindSafe(|| o2o_impl::expand::derive(di)));
    IN_DERIVE.with(|c| c.set(false));
    match r {
        Ok(Ok(ts)) => Ok(ts),
        Ok(Err(e)) => Err(Outcome::Err(e.into_iter().map(|x| x.to_string()).collect())),
        Err(p) => Err(Outcome::Panic(format!("{} @ {}", panic_msg(p), last_panic_loc()))),
    }
}

pub fn expand(text: &str) -> Outcome {
    match parse_input(text) {
        Ok(di) => expand_parsed(&di),
        Err(e) => Outcome::NotAnItem(e),
    }
}

pub fn hash64(s: &str) -> u64 {
    // FNV-1a; stable across processes (no RandomState).
    let mut h: u64 = 0xcbf29ce484222325;
    for b in s.as_bytes() {
        h ^= *b as u64;
        h = h.wrapping_mul(0x100000001b3);
    }
    h
}
