//! vf-core: `check <ID> --tier quick|thorough`, `replay <ID> <file>`, `sample <ID> <part> <n>`.
use std::time::Instant;
use vf_core::evidence::write_evidence;
use vf_core::known::Known;
use vf_core::props;
use vf_core::runner::{Ctx, Tier, Verdict};

fn usage() -> ! {
    eprintln!("usage: vf-core check <ID> [--tier quick|thorough] | replay <ID> <file> | sample <ID> <part> <n> | list");
    std::process::exit(2)
}

fn seed_from_env() -> u64 {
    std::env::var("VERIF_SEED").ok().and_then(|s| s.trim().parse::<i128>().ok()).map(|v| v as u64).unwrap_or(0)
}

fn main() {
    let args: Vec<String> = std::env::args().collect();
    if args.len() < 2 {
        usage();
    }
    vf_core::xp::silence_panics();
    match args[1].as_str() {
        "list" => {
            for p in props::ALL {
                println!("{}", p);
            }
        }
        "check" => {
            let id = args.get(2).cloned().unwrap_or_else(|| usage());
            let mut tier = match std::env::var("VERIF_TIER").as_deref() {
                Ok("thorough") => Tier::Thorough,
                _ => Tier::Quick,
            };
            let mut i = 3;
            while i < args.len() {
                if args[i] == "--tier" {
                    tier = match args.get(i + 1).map(|s| s.as_str()) {
                        Some("thorough") => Tier::Thorough,
                        Some("quick") => Tier::Quick,
                        _ => usage(),
                    };
                    i += 1;
                }
                i += 1;
            }
            if !props::ALL.contains(&id.as_str()) {
                eprintln!("unknown property {}", id);
                std::process::exit(2);
            }
            let seed = seed_from_env();
            vf_core::runner::start_watchdog(match tier {
                Tier::Quick => 1500,
                Tier::Thorough => 4 * 3600,
            });
            let known = Known::load();
            let start = Instant::now();
            let mut res = props::check(&id, tier, seed, &known);
            // canonical inputs of open known findings: report each one that still fails
            res.known_lines = props::report_known(&id, &known);
            let wall = start.elapsed().as_secs_f64();
            let path = write_evidence(&res, tier, seed, wall);
            for l in &res.known_lines {
                println!("{}", l);
            }
            let mut nviol = 0;
            for p in &res.parts {
                println!(
                    "[{}:{}] evaluations={} distinct_nontrivial={} known_hits={} discards={} violations={}",
                    id,
                    p.name,
                    p.evaluations,
                    p.distinct_nontrivial,
                    p.known_hits.values().sum::<u64>(),
                    p.discards,
                    p.violations.len()
                );
                for (k, n) in &p.known_hits {
                    println!("  known_hits {} = {}", k, n);
                }
                for v in &p.violations {
                    nviol += 1;
                    println!("VIOLATION property={} replay={}", id, v.replay);
                    println!("  {}", v.msg.chars().take(600).collect::<String>());
                }
            }
            println!("evidence: {} ({:.1}s)", path, wall);
            if let Some(why) = &res.inconclusive {
                eprintln!("inconclusive: {}", why);
                std::process::exit(2);
            }
            // a generator that mostly discards is an infrastructure problem, not a verdict
            for p in &res.parts {
                if p.evaluations > 0 && p.discards * 10 > p.evaluations * 3 {
                    eprintln!("inconclusive: part {} discarded {} of {} cases", p.name, p.discards, p.evaluations);
                    std::process::exit(2);
                }
            }
            std::process::exit(if nviol > 0 { 1 } else { 0 });
        }
        "replay" => {
            let id = args.get(2).cloned().unwrap_or_else(|| usage());
            let file = args.get(3).cloned().unwrap_or_else(|| usage());
            let known = Known::load();
            match props::replay_file(&id, &file, &known, true) {
                Ok(None) => {
                    println!("replay {}: property holds on this input", file);
                    std::process::exit(0);
                }
                Ok(Some(msg)) => {
                    println!("VIOLATION property={} replay={}", id, file);
                    println!("  {}", msg);
                    std::process::exit(1);
                }
                Err(e) => {
                    eprintln!("replay failed: {}", e);
                    std::process::exit(2);
                }
            }
        }
        "sample" => {
            // print generated cases (debugging aid / evidence of what the generator produces)
            let id = args.get(2).cloned().unwrap_or_else(|| usage());
            let part = args.get(3).cloned().unwrap_or_else(|| usage());
            let n: usize = args.get(4).and_then(|s| s.parse().ok()).unwrap_or(10);
            let known = Known::load();
            let ctx = Ctx { known: &known, strict: false };
            use proptest::strategy::{Strategy, ValueTree};
            use proptest::test_runner::{Config, RngAlgorithm, TestRng, TestRunner};
            for p in props::parts(&id) {
                if p.name() != part {
                    continue;
                }
                let rng = TestRng::from_seed(RngAlgorithm::ChaCha, &vf_core::runner::seed32(seed_from_env(), &id, &part, 0));
                let mut runner = TestRunner::new_with_rng(Config::default(), rng);
                let strat = proptest::collection::vec(proptest::num::u16::ANY, 0..=p.max_tape());
                for _ in 0..n {
                    let tape = strat.new_tree(&mut runner).unwrap().current();
                    let rep = p.run_case(&tape, &ctx);
                    let v = match &rep.verdict {
                        Verdict::Pass => "pass".to_string(),
                        Verdict::Discard(r) => format!("discard({})", r),
                        Verdict::Known(s) => format!("known({})", s),
                        Verdict::Fail { msg, .. } => format!("FAIL: {}", msg),
                    };
                    println!("---- nontrivial={} {} labels={:?}\n{}", rep.nontrivial, v, rep.labels, rep.key);
                }
            }
        }
        _ => usage(),
    }
}
