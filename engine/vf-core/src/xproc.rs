//! X — cross-process and cross-back-end runner (C18, C19).
//!
//! A corpus of generated inputs is written to a scratch file under /verif/work,
//! `dump-syn1` / `dump-syn2` (separate processes, separate builds of o2o-impl)
//! expand it and print one line per input; lines are compared here.

use crate::known::Known;
use crate::runner::{seed32, write_replay, PartStats, Violation};
use crate::xp::hash64;
use proptest::strategy::{Strategy, ValueTree};
use proptest::test_runner::{Config, RngAlgorithm, TestRng, TestRunner};
use serde_json::{json, Value};
use std::collections::{BTreeMap, HashSet};
use std::sync::atomic::{AtomicUsize, Ordering};

static COUNTER: AtomicUsize = AtomicUsize::new(0);

pub fn work_dir() -> String {
    let d = format!("{}/work", crate::verif_root());
    let _ = std::fs::create_dir_all(&d);
    d
}

pub fn bin_path(name: &str) -> String {
    format!("{}/engine/target/release/{}", crate::verif_root(), name)
}

/// Run a dump binary over `inputs`; returns one output line per input.
pub fn run_dump(bin: &str, inputs: &[String]) -> Result<Vec<String>, String> {
    let chunks = 16usize.min(inputs.len().max(1));
    let per = (inputs.len() + chunks - 1) / chunks.max(1);
    let mut results: Vec<Result<Vec<String>, String>> = vec![];
    std::thread::scope(|s| {
        let mut handles = vec![];
        for c in inputs.chunks(per.max(1)) {
            handles.push(s.spawn(move || -> Result<Vec<String>, String> {
                let id = COUNTER.fetch_add(1, Ordering::SeqCst);
                let path = format!("{}/dump-{}-{}.in", work_dir(), std::process::id(), id);
                let mut text = String::new();
                for i in c {
                    text.push_str(i);
                    if !i.ends_with('\n') {
                        text.push('\n');
                    }
                    text.push_str("====\n");
                }
                std::fs::write(&path, text).map_err(|e| e.to_string())?;
                let out = std::process::Command::new(bin_path(bin)).arg(&path).output().map_err(|e| format!("cannot run {}: {}", bin, e))?;
                let _ = std::fs::remove_file(&path);
                if !out.status.success() {
                    return Err(format!("{} exited with {:?}: {}", bin, out.status.code(), String::from_utf8_lossy(&out.stderr).chars().take(300).collect::<String>()));
                }
                let lines: Vec<String> = String::from_utf8_lossy(&out.stdout).lines().map(|l| l.to_string()).collect();
                if lines.len() != c.len() {
                    return Err(format!("{} printed {} lines for {} inputs", bin, lines.len(), c.len()));
                }
                Ok(lines)
            }));
        }
        for h in handles {
            results.push(h.join().unwrap_or_else(|_| Err("dump thread panicked".into())));
        }
    });
    let mut all = vec![];
    for r in results {
        all.extend(r?);
    }
    Ok(all)
}

pub struct JudgeOut {
    pub nontrivial: bool,
    pub labels: Vec<String>,
    /// (known-finding signature, message, detail)
    pub failure: Option<(Option<String>, String, Value)>,
}

/// Sample `n` tapes with proptest (keeping the value trees), render, judge the whole batch, shrink the first failure.
pub fn run_batch(
    prop: &'static str,
    part: &'static str,
    rule: String,
    n: usize,
    max_tape: usize,
    seed: u64,
    known: &Known,
    gen: &dyn Fn(&[u16]) -> (String, Vec<String>),
    judge: &dyn Fn(&[String]) -> Result<Vec<JudgeOut>, String>,
) -> Result<PartStats, String> {
    let cfg = Config { failure_persistence: None, ..Config::default() };
    let rng = TestRng::from_seed(RngAlgorithm::ChaCha, &seed32(seed, prop, part, 0));
    let mut runner = TestRunner::new_with_rng(cfg, rng);
    let strat = proptest::collection::vec(proptest::num::u16::ANY, 0..=max_tape);
    let mut trees = vec![];
    let mut texts = vec![];
    let mut glabels = vec![];
    for _ in 0..n {
        let tree = strat.new_tree(&mut runner).map_err(|e| e.to_string())?;
        let (text, labels) = gen(&tree.current());
        texts.push(text);
        glabels.push(labels);
        trees.push(tree);
    }
    let outs = judge(&texts)?;
    let mut st = PartStats { name: part.into(), rule, ..Default::default() };
    let mut nt = HashSet::new();
    let mut all = HashSet::new();
    let mut first_fail: Option<usize> = None;
    for (i, o) in outs.iter().enumerate() {
        st.evaluations += 1;
        let h = hash64(&texts[i]);
        all.insert(h);
        let mut labels = glabels[i].clone();
        labels.extend(o.labels.iter().cloned());
        if o.nontrivial {
            st.nontrivial_total += 1;
            if nt.insert(h) && st.samples.len() < 6 {
                st.samples.push(json!({"case": texts[i], "labels": labels}));
            }
        }
        for l in labels {
            *st.labels.entry(l).or_default() += 1;
        }
        if let Some((sig, _, _)) = &o.failure {
            match sig {
                Some(s) if known.is_open(prop, s) => {
                    *st.known_hits.entry(s.clone()).or_default() += 1;
                }
                _ => {
                    if first_fail.is_none() {
                        first_fail = Some(i);
                    }
                }
            }
        }
    }
    st.distinct_nontrivial = nt.len() as u64;
    st.distinct_total = all.len() as u64;

    if let Some(i) = first_fail {
        // shrink with the standard simplify / complicate loop against single-input judging
        let mut tree = trees.swap_remove(i);
        let is_unknown_fail = |text: &String| -> bool {
            match judge(std::slice::from_ref(text)) {
                Ok(v) => v.first().map_or(false, |o| match &o.failure {
                    Some((Some(s), _, _)) => !known.is_open(prop, s),
                    Some((None, _, _)) => true,
                    None => false,
                }),
                Err(_) => false,
            }
        };
        let mut best = tree.current();
        let mut steps = 0;
        let mut shrink_steps = 0u64;
        while steps < 400 {
            steps += 1;
            if !tree.simplify() {
                break;
            }
            loop {
                let cur = tree.current();
                let (text, _) = gen(&cur);
                if is_unknown_fail(&text) {
                    best = cur;
                    shrink_steps += 1;
                    break;
                }
                if !tree.complicate() {
                    break;
                }
                steps += 1;
                if steps >= 400 {
                    break;
                }
            }
        }
        let (text, _) = gen(&best);
        let (msg, detail) = match judge(std::slice::from_ref(&text)) {
            Ok(v) => match v.into_iter().next().and_then(|o| o.failure) {
                Some((_, m, d)) => (m, d),
                None => {
                    let o = outs[i].failure.as_ref().unwrap();
                    (o.1.clone(), o.2.clone())
                }
            },
            Err(e) => (format!("judge failed during shrinking: {}", e), json!({})),
        };
        st.extra.insert("shrink_steps".into(), json!(shrink_steps));
        let path = write_replay(prop, part, &format!("s{}", seed), &best, &msg, &detail);
        st.violations.push(Violation { replay: path, msg });
    }
    Ok(st)
}

fn line_kind(l: &str) -> &str {
    l.split(' ').next().unwrap_or("")
}

fn err_set(l: &str) -> Vec<String> {
    let body = l.strip_prefix("ERR ").unwrap_or("");
    let mut v: Vec<String> = body.split('\x1f').filter(|m| *m != crate::xp::ROOT_ERR).map(|s| s.to_string()).collect();
    v.sort();
    v
}

/// C19 cross-process: `procs` fresh dump-syn1 processes must print identical lines.
pub fn run_cross_process(prop: &'static str, part: &'static str, n: usize, seed: u64, known: &Known, procs: usize, gen: &dyn Fn(&[u16]) -> (String, Vec<String>)) -> Result<PartStats, String> {
    let judge = move |texts: &[String]| -> Result<Vec<JudgeOut>, String> {
        // during shrinking (single input) use more processes: order differences are probabilistic
        let k = if texts.len() == 1 { procs.max(8) } else { procs };
        let mut runs = vec![];
        for _ in 0..k {
            runs.push(run_dump("dump-syn1", texts)?);
        }
        let mut outs = vec![];
        for i in 0..texts.len() {
            let a = &runs[0][i];
            let kind = line_kind(a).to_string();
            let diags = if kind == "ERR" { err_set(a) } else { vec![] };
            let mut d2 = diags.clone();
            d2.dedup();
            let nontrivial = (kind == "ERR" && d2.len() >= 2) || (kind == "OK" && a.matches("impl ").count() >= 3);
            let mut failure = None;
            for r in 1..k {
                let b = &runs[r][i];
                if a != b {
                    let sig = if line_kind(a) == "ERR" && line_kind(b) == "ERR" && err_set(a) == err_set(b) { Some("diagnostic-order".to_string()) } else { None };
                    failure = Some((sig, format!("two processes expanded the same input differently: `{}` vs `{}`", trunc(a, 300), trunc(b, 300)), json!({"input": texts[i], "process_0": a, "process_n": b})));
                    break;
                }
            }
            outs.push(JudgeOut { nontrivial, labels: vec![format!("outcome:{}", kind)], failure });
        }
        Ok(outs)
    };
    let rule = format!(
        "Same corpus as the in-process part, expanded by {} fresh `dump-syn1` processes (std seeds RandomState per process); every input's output line (tokens, or diagnostics in emission order, or panic message) must be byte-identical across processes. Non-trivial = rejected with >= 2 distinct diagnostics or accepted with >= 3 impls; distinct by input text.",
        procs
    );
    run_batch(prop, part, rule, n, 320, seed, known, gen, &judge)
}

pub fn trunc(s: &str, n: usize) -> String {
    if s.chars().count() <= n {
        s.to_string()
    } else {
        format!("{}…", s.chars().take(n).collect::<String>())
    }
}

/// C18: syn 1 vs syn 2 back-ends.
pub fn run_backend_diff(prop: &'static str, part: &'static str, rule: String, n: usize, seed: u64, known: &Known, gen: &dyn Fn(&[u16]) -> (String, Vec<String>), sig_of: &dyn Fn(&str, &str, &str) -> Option<String>) -> Result<PartStats, String> {
    let judge = move |texts: &[String]| -> Result<Vec<JudgeOut>, String> {
        let a = run_dump("dump-syn1", texts)?;
        let b = run_dump("dump-syn2", texts)?;
        let mut outs = vec![];
        for i in 0..texts.len() {
            let (la, lb) = (&a[i], &b[i]);
            let (ka, kb) = (line_kind(la), line_kind(lb));
            let n_attrs = texts[i].matches("#[").count();
            let mut labels = vec![format!("syn1:{}", ka), format!("syn2:{}", kb)];
            let problem: Option<String> = if ka == "NOITEM" || kb == "NOITEM" {
                // not a derive input for (one of) the parser libraries: outside o2o
                labels.push("not-an-item".into());
                None
            } else if ka != kb {
                Some(format!("verdicts differ: syn1 {} vs syn2 {}", trunc(la, 200), trunc(lb, 200)))
            } else if ka == "OK" && la != lb {
                Some("both accept but the expansions differ".to_string())
            } else if ka == "ERR" {
                let root = format!("ERR {}", crate::xp::ROOT_ERR);
                if la.starts_with(&root) && lb.starts_with(&root) {
                    if err_set(la) != err_set(lb) {
                        Some(format!("o2o diagnostics differ: {:?} vs {:?}", err_set(la), err_set(lb)))
                    } else {
                        None
                    }
                } else if la.starts_with(&root) != lb.starts_with(&root) {
                    Some(format!("one back-end reports o2o configuration diagnostics, the other a parse error: {} vs {}", trunc(la, 200), trunc(lb, 200)))
                } else {
                    labels.push("parser-stage-error".into());
                    None
                }
            } else if ka == "PANIC" && la != lb {
                Some(format!("panics differ: {} vs {}", la, lb))
            } else {
                None
            };
            let failure = problem.map(|m| (sig_of(&texts[i], la, lb), m, json!({"input": texts[i], "syn1": la, "syn2": lb})));
            outs.push(JudgeOut { nontrivial: n_attrs >= 2 && ka != "NOITEM", labels, failure });
        }
        Ok(outs)
    };
    run_batch(prop, part, rule, n, 320, seed, known, gen, &judge)
}

pub fn _unused(_: BTreeMap<String, u64>) {}
