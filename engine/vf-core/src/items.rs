//! Item splitter: cuts o2o's output token stream into impl items and reads each
//! header / method signature without parsing bodies, so it stays usable when a
//! body is malformed.

use proc_macro2::{Delimiter, Spacing, TokenStream, TokenTree};

#[derive(Clone, Debug)]
pub struct ImplItem {
    pub impl_attrs: Vec<String>,
    pub generics: String,
    pub trait_path: String,
    pub trait_arg: String,
    pub self_ty: String,
    pub where_clause: String,
    pub assoc_error: Option<String>,
    pub fn_attrs: Vec<String>,
    pub fn_name: String,
    pub fn_params: String,
    pub fn_ret: Option<String>,
    pub body: TokenStream,
    /// tokens inside the impl braces other than the recognised `type Error`, attrs and one fn
    pub extra_members: Vec<String>,
    pub fn_count: usize,
    pub text: String,
}

#[derive(Clone, Debug, PartialEq, Eq, Hash, PartialOrd, Ord)]
pub struct ImplKey {
    /// From / TryFrom / Into / TryInto / IntoExisting / TryIntoExisting
    pub trait_name: String,
    pub by_ref: bool,
    /// counterpart type tokens (reference and 'o2o stripped)
    pub counterpart: String,
}

pub fn ts_string(tokens: &[TokenTree]) -> String {
    tokens.iter().cloned().collect::<TokenStream>().to_string()
}

fn is_punct(t: &TokenTree, c: char) -> bool {
    matches!(t, TokenTree::Punct(p) if p.as_char() == c)
}

fn is_ident(t: &TokenTree, s: &str) -> bool {
    matches!(t, TokenTree::Ident(i) if i == s)
}

/// Split `tokens` at the first depth-0 occurrence of keyword `kw` (angle-bracket depth; `->` ignored).
fn split_at_kw(tokens: &[TokenTree], kw: &str) -> Option<(Vec<TokenTree>, Vec<TokenTree>)> {
    let mut depth: i32 = 0;
    let mut prev_minus_joint = false;
    for (i, t) in tokens.iter().enumerate() {
        match t {
            TokenTree::Punct(p) => {
                let c = p.as_char();
                if c == '<' {
                    depth += 1;
                } else if c == '>' && !prev_minus_joint {
                    depth -= 1;
                }
                prev_minus_joint = c == '-' && p.spacing() == Spacing::Joint;
                continue;
            }
            TokenTree::Ident(id) if depth == 0 && id == kw => {
                // `for<'a>` (HRTB) is not the impl's `for`
                if kw == "for" && tokens.get(i + 1).map_or(false, |n| is_punct(n, '<')) {
                    prev_minus_joint = false;
                    continue;
                }
                return Some((tokens[..i].to_vec(), tokens[i + 1..].to_vec()));
            }
            _ => {}
        }
        prev_minus_joint = false;
    }
    None
}

/// Take a leading `< ... >` (balanced) from tokens.
fn take_angle(tokens: &[TokenTree]) -> (Vec<TokenTree>, Vec<TokenTree>) {
    if tokens.first().map_or(true, |t| !is_punct(t, '<')) {
        return (vec![], tokens.to_vec());
    }
    let mut depth = 0i32;
    let mut prev_minus_joint = false;
    for (i, t) in tokens.iter().enumerate() {
        if let TokenTree::Punct(p) = t {
            let c = p.as_char();
            if c == '<' {
                depth += 1;
            } else if c == '>' && !prev_minus_joint {
                depth -= 1;
                if depth == 0 {
                    return (tokens[..=i].to_vec(), tokens[i + 1..].to_vec());
                }
            }
            prev_minus_joint = c == '-' && p.spacing() == Spacing::Joint;
        } else {
            prev_minus_joint = false;
        }
    }
    (tokens.to_vec(), vec![])
}

/// Split a trait reference `path<arg>` into (path, arg-inside-brackets).
fn split_trait(tokens: &[TokenTree]) -> (String, String) {
    let pos = tokens.iter().position(|t| is_punct(t, '<'));
    match pos {
        Some(p) => {
            let (ang, _rest) = take_angle(&tokens[p..]);
            let inner = if ang.len() >= 2 { ang[1..ang.len() - 1].to_vec() } else { vec![] };
            (ts_string(&tokens[..p]), ts_string(&inner))
        }
        None => (ts_string(tokens), String::new()),
    }
}

pub fn split_items(ts: &TokenStream) -> Result<Vec<ImplItem>, String> {
    let toks: Vec<TokenTree> = ts.clone().into_iter().collect();
    let mut items = vec![];
    let mut i = 0;
    while i < toks.len() {
        let start = i;
        // leading attributes
        let mut impl_attrs = vec![];
        while i + 1 < toks.len() && is_punct(&toks[i], '#') {
            if let TokenTree::Group(g) = &toks[i + 1] {
                if g.delimiter() == Delimiter::Bracket {
                    impl_attrs.push(g.stream().to_string());
                    i += 2;
                    continue;
                }
            }
            return Err(format!("stray '#' at top-level token {}", i));
        }
        if i >= toks.len() || !is_ident(&toks[i], "impl") {
            return Err(format!("expected `impl` at top-level token {}, found `{}`", i, toks.get(i).map(|t| t.to_string()).unwrap_or_default()));
        }
        i += 1;
        let hstart = i;
        while i < toks.len() && !matches!(&toks[i], TokenTree::Group(g) if g.delimiter() == Delimiter::Brace) {
            i += 1;
        }
        if i >= toks.len() {
            return Err("impl header without a body".into());
        }
        let header = &toks[hstart..i];
        let body_group = if let TokenTree::Group(g) = &toks[i] { g.clone() } else { unreachable!() };
        i += 1;
        let text = ts_string(&toks[start..i]);

        let (gens, rest) = take_angle(header);
        let (trait_toks, after_for) = match split_at_kw(&rest, "for") {
            Some(x) => x,
            None => return Err(format!("impl header has no `for`: {}", ts_string(header))),
        };
        let (self_toks, where_toks) = match split_at_kw(&after_for, "where") {
            Some((a, b)) => (a, b),
            None => (after_for, vec![]),
        };
        let (trait_path, trait_arg) = split_trait(&trait_toks);

        // body members
        let inner: Vec<TokenTree> = body_group.stream().into_iter().collect();
        let mut j = 0;
        let mut assoc_error = None;
        let mut fn_attrs = vec![];
        let mut fn_name = String::new();
        let mut fn_params = String::new();
        let mut fn_ret = None;
        let mut body = TokenStream::new();
        let mut extra = vec![];
        let mut fn_count = 0;
        let mut pending_attrs: Vec<String> = vec![];
        while j < inner.len() {
            if is_ident(&inner[j], "type") {
                let s = j;
                while j < inner.len() && !is_punct(&inner[j], ';') {
                    j += 1;
                }
                // type Error = X ;
                if s + 2 < inner.len() && is_ident(&inner[s + 1], "Error") && is_punct(&inner[s + 2], '=') && assoc_error.is_none() {
                    assoc_error = Some(ts_string(&inner[s + 3..j.min(inner.len())]));
                } else {
                    extra.push(ts_string(&inner[s..j.min(inner.len())]));
                }
                j += 1;
            } else if is_punct(&inner[j], '#') && j + 1 < inner.len() && matches!(&inner[j + 1], TokenTree::Group(g) if g.delimiter() == Delimiter::Bracket) {
                if let TokenTree::Group(g) = &inner[j + 1] {
                    pending_attrs.push(g.stream().to_string());
                }
                j += 2;
            } else if is_ident(&inner[j], "fn") {
                fn_count += 1;
                let s = j;
                j += 1;
                let name = inner.get(j).map(|t| t.to_string()).unwrap_or_default();
                j += 1;
                let params = match inner.get(j) {
                    Some(TokenTree::Group(g)) if g.delimiter() == Delimiter::Parenthesis => g.stream().to_string(),
                    _ => return Err(format!("fn {} without parameter list", name)),
                };
                j += 1;
                let rs = j;
                while j < inner.len() && !matches!(&inner[j], TokenTree::Group(g) if g.delimiter() == Delimiter::Brace) {
                    j += 1;
                }
                let ret = if j > rs {
                    // skip the `->`
                    let r = &inner[rs..j];
                    if r.len() >= 2 && is_punct(&r[0], '-') && is_punct(&r[1], '>') {
                        Some(ts_string(&r[2..]))
                    } else {
                        Some(ts_string(r))
                    }
                } else {
                    None
                };
                let b = match inner.get(j) {
                    Some(TokenTree::Group(g)) => g.stream(),
                    _ => return Err(format!("fn {} without body", name)),
                };
                j += 1;
                if fn_count == 1 {
                    fn_attrs = std::mem::take(&mut pending_attrs);
                    fn_name = name;
                    fn_params = params;
                    fn_ret = ret;
                    body = b;
                } else {
                    extra.push(ts_string(&inner[s..j]));
                }
            } else {
                extra.push(inner[j].to_string());
                j += 1;
            }
        }
        for a in pending_attrs {
            extra.push(format!("#[{}]", a));
        }

        items.push(ImplItem {
            impl_attrs,
            generics: ts_string(&gens),
            trait_path,
            trait_arg,
            self_ty: ts_string(&self_toks),
            where_clause: ts_string(&where_toks),
            assoc_error,
            fn_attrs,
            fn_name,
            fn_params,
            fn_ret,
            body,
            extra_members: extra,
            fn_count,
            text,
        });
    }
    Ok(items)
}

pub fn nospace(s: &str) -> String {
    s.chars().filter(|c| !c.is_whitespace()).collect()
}

/// Strip a leading `&` / `& 'o2o` from a type string.
pub fn strip_ref(s: &str) -> (bool, String) {
    let t = s.trim();
    if let Some(rest) = t.strip_prefix('&') {
        let rest = rest.trim_start();
        let rest = rest.strip_prefix("'o2o").map(|r| r.trim_start()).unwrap_or(rest);
        (true, rest.to_string())
    } else {
        (false, t.to_string())
    }
}

impl ImplItem {
    pub fn trait_short(&self) -> Option<&'static str> {
        match nospace(&self.trait_path).as_str() {
            "::core::convert::From" => Some("From"),
            "::core::convert::TryFrom" => Some("TryFrom"),
            "::core::convert::Into" => Some("Into"),
            "::core::convert::TryInto" => Some("TryInto"),
            "o2o::traits::IntoExisting" => Some("IntoExisting"),
            "o2o::traits::TryIntoExisting" => Some("TryIntoExisting"),
            _ => None,
        }
    }

    pub fn key(&self) -> Option<ImplKey> {
        let tn = self.trait_short()?;
        let (by_ref, counterpart) = match tn {
            "From" | "TryFrom" => strip_ref(&self.trait_arg),
            _ => {
                let (r, _) = strip_ref(&self.self_ty);
                (r, self.trait_arg.trim().to_string())
            }
        };
        Some(ImplKey { trait_name: tn.to_string(), by_ref, counterpart })
    }

    pub fn is_from(&self) -> bool {
        matches!(self.trait_short(), Some("From") | Some("TryFrom"))
    }

    pub fn fallible(&self) -> bool {
        matches!(self.trait_short(), Some("TryFrom") | Some("TryInto") | Some("TryIntoExisting"))
    }
}

/// Flatten a token stream to a token-text sequence: groups become open / close tokens,
/// punctuation keeps its spacing (joint puncts are marked), literals and idents by text.
pub fn flatten(ts: &TokenStream, out: &mut Vec<String>) {
    for t in ts.clone() {
        match t {
            TokenTree::Group(g) => {
                let (o, c) = match g.delimiter() {
                    Delimiter::Parenthesis => ("(", ")"),
                    Delimiter::Brace => ("{", "}"),
                    Delimiter::Bracket => ("[", "]"),
                    Delimiter::None => ("", ""),
                };
                if !o.is_empty() {
                    out.push(o.to_string());
                }
                flatten(&g.stream(), out);
                if !c.is_empty() {
                    out.push(c.to_string());
                }
            }
            TokenTree::Punct(p) => {
                out.push(if p.spacing() == Spacing::Joint { format!("{}+", p.as_char()) } else { p.as_char().to_string() });
            }
            other => out.push(other.to_string()),
        }
    }
}

pub fn flat(ts: &TokenStream) -> Vec<String> {
    let mut v = vec![];
    flatten(ts, &mut v);
    v
}

pub fn contains_subseq(hay: &[String], needle: &[String]) -> bool {
    if needle.is_empty() {
        return true;
    }
    if needle.len() > hay.len() {
        return false;
    }
    hay.windows(needle.len()).any(|w| w == needle)
}
