//! L2 plans for flattened mappings (C03): a nesting tree for the counterpart, the deriving struct's flat
//! fields assigned to its leaves in a random permutation, rendered into #[child] / #[child_parents] /
//! child-path #[ghosts] instructions and, independently, into reference functions that build the nested
//! value literally.  Second family: the deriving struct holds the nested value and flattens it with
//! #[parent(..)] (parameterised, recursive) or a bare #[parent].

use crate::dsl::*;
use crate::e2::E2Case;
use crate::plan_struct::ExprT;
use crate::tape::Tape;
use std::fmt::Write;

#[derive(Clone, Debug)]
pub enum Slot {
    /// S field id
    Leaf(usize),
    Child(Box<Node>),
    /// D-only leaf supplied by a (child-path) #[ghosts] entry
    Ghost(i64),
}

#[derive(Clone, Debug)]
pub struct Node {
    pub ty: String,
    pub tuple: bool,
    /// the type is declared `N<T>` (its first leaf has type T) and used as `N<i64>`
    pub generic: bool,
    /// (member text, slot) in declaration order of the type; for tuple nodes the member text is the position
    pub slots: Vec<(String, Slot)>,
}

#[derive(Clone, Debug)]
pub struct Leaf {
    pub s_name: String,
    /// member path from the root to the owning node (empty for root leaves)
    pub path: Vec<String>,
    /// member text inside the owning node
    pub member: String,
    pub from: ExprT,
    pub into: ExprT,
}

#[derive(Clone, Debug)]
pub struct FlatPlan {
    pub s_named: bool,
    pub root: Node,
    /// in S declaration order
    pub leaves: Vec<Leaf>,
    pub cells: [[bool; 6]; 2],
    pub depth: usize,
    pub interleaved: bool,
    pub tree_order: bool,
    pub split_groups: bool,
}

fn gen_shape(t: &mut Tape, depth: usize, max_depth: usize, counter: &mut usize, nleaves: &mut usize, root: bool) -> Node {
    let id = *counter;
    *counter += 1;
    let tuple = !root && t.chance(1, 7);
    let mut slots: Vec<(String, Slot)> = vec![];
    let n_leaf = if root { t.below(4) } else { t.below(3) };
    let n_child = if depth < max_depth { if root { 1 + t.below(2) } else { t.weighted(&[3, 2, 1]) } } else { 0 };
    let n_leaf = if n_leaf + n_child == 0 { 1 } else { n_leaf };
    for _ in 0..n_leaf {
        if *nleaves < 10 {
            slots.push((String::new(), Slot::Leaf(*nleaves)));
            *nleaves += 1;
        }
    }
    for _ in 0..n_child {
        if *nleaves < 10 {
            let c = gen_shape(t, depth + 1, max_depth, counter, nleaves, false);
            slots.push((String::new(), Slot::Child(Box::new(c))));
        }
    }
    if slots.is_empty() {
        slots.push((String::new(), Slot::Leaf(*nleaves)));
        *nleaves += 1;
    }
    if !tuple && t.chance(1, 6) {
        slots.push((format!("gd{}", id), Slot::Ghost(3000 + t.below(900) as i64)));
    }
    t.shuffle(&mut slots);
    let generic = !root && slots.iter().any(|s| !matches!(s.1, Slot::Child(_))) && t.chance(1, 5);
    Node { ty: if root { "D".into() } else { format!("N{}", id) }, tuple, generic, slots }
}

fn depth_of(n: &Node) -> usize {
    n.slots.iter().map(|s| if let Slot::Child(c) = &s.1 { 1 + depth_of(c) } else { 0 }).max().unwrap_or(0)
}

fn first_leaf(n: &Node, order: &[usize]) -> usize {
    // rank (in S order) of the earliest S field inside this subtree
    n.slots
        .iter()
        .map(|s| match &s.1 {
            Slot::Leaf(id) => order.iter().position(|x| x == id).unwrap_or(usize::MAX),
            Slot::Child(c) => first_leaf(c, order),
            Slot::Ghost(_) => usize::MAX,
        })
        .min()
        .unwrap_or(usize::MAX)
}

/// Name the members: named nodes get identifiers, tuple nodes positions in order of first appearance in S.
fn name_members(t: &mut Tape, n: &mut Node, order: &[usize], s_names: &[String], s_named: bool) {
    if n.tuple {
        // documented behaviour (tests 11): positional members follow the order in which the flat struct mentions them
        let mut keyed: Vec<(usize, (String, Slot))> = n
            .slots
            .drain(..)
            .map(|s| {
                let k = match &s.1 {
                    Slot::Leaf(id) => order.iter().position(|x| x == id).unwrap_or(usize::MAX),
                    Slot::Child(c) => first_leaf(c, order),
                    Slot::Ghost(_) => usize::MAX,
                };
                (k, s)
            })
            .collect();
        keyed.sort_by_key(|x| x.0);
        let mut slots: Vec<Slot> = keyed.into_iter().map(|(_, (_, slot))| slot).collect();
        // index renames may also permute the flat members among the positions they occupy (nested structs keep theirs):
        // the value must arrive at the designated index, not at the position of first mention
        let leaf_pos: Vec<usize> = slots.iter().enumerate().filter(|(_, s)| matches!(s, Slot::Leaf(_))).map(|x| x.0).collect();
        if leaf_pos.len() >= 2 && t.chance(1, 3) {
            let mut shuffled = leaf_pos.clone();
            t.shuffle(&mut shuffled);
            let old: Vec<Slot> = slots.clone();
            for (from, to) in leaf_pos.iter().zip(shuffled.iter()) {
                slots[*to] = old[*from].clone();
            }
        }
        n.slots = slots.into_iter().enumerate().map(|(p, slot)| (format!("{}", p), slot)).collect();
    } else {
        let mut ci = 0;
        let mut first_child: Option<String> = None;
        for (name, slot) in n.slots.iter_mut() {
            match slot {
                Slot::Leaf(id) => {
                    *name = if s_named && !t.chance(1, 3) { s_names[*id].clone() } else { format!("m{}", id) };
                }
                Slot::Child(c) => {
                    // sibling members whose names share a string prefix (line / line2): paths must be compared by component
                    *name = match &first_child {
                        Some(f) if t.coin() => format!("{}b{}", f, ci),
                        _ => format!("k{}{}", c.ty.trim_start_matches('N'), ["", "x"][ci % 2]),
                    };
                    if first_child.is_none() {
                        first_child = Some(name.clone());
                    }
                    ci += 1;
                }
                Slot::Ghost(_) => {}
            }
        }
    }
    for (_, slot) in n.slots.iter_mut() {
        if let Slot::Child(c) = slot {
            name_members(t, c, order, s_names, s_named);
        }
    }
}

fn collect_leaves(n: &Node, path: &mut Vec<String>, out: &mut Vec<(usize, Vec<String>, String)>) {
    for (name, slot) in &n.slots {
        match slot {
            Slot::Leaf(id) => out.push((*id, path.clone(), name.clone())),
            Slot::Child(c) => {
                path.push(name.clone());
                collect_leaves(c, path, out);
                path.pop();
            }
            Slot::Ghost(_) => {}
        }
    }
}

pub fn gen_plan(t: &mut Tape) -> FlatPlan {
    let s_named = !t.chance(1, 5);
    let max_depth = 1 + t.weighted(&[3, 4, 2, 1]);
    let mut counter = 0;
    let mut nleaves = 0;
    let mut root = gen_shape(t, 0, max_depth, &mut counter, &mut nleaves, true);
    root.tuple = !s_named;
    // S declaration order = random permutation of the leaves
    let mut order: Vec<usize> = (0..nleaves).collect();
    t.shuffle(&mut order);
    let s_names: Vec<String> = (0..nleaves).map(|id| if s_named { format!("f{}", id) } else { format!("{}", order.iter().position(|x| *x == id).unwrap()) }).collect();
    name_members(t, &mut root, &order, &s_names, s_named);
    let mut raw = vec![];
    collect_leaves(&root, &mut vec![], &mut raw);
    let mut leaves: Vec<Leaf> = vec![];
    for id in &order {
        let (_, path, member) = raw.iter().find(|x| x.0 == *id).unwrap().clone();
        let (from, into) = if t.chance(1, 3) { (gen_e(t), gen_e(t)) } else { (ExprT::Id, ExprT::Id) };
        leaves.push(Leaf { s_name: s_names[*id].clone(), path, member, from, into });
    }
    // interleaving: the leaves of some subtree are not contiguous in S declaration order
    let mut interleaved = false;
    let paths: Vec<String> = leaves.iter().map(|l| l.path.join(".")).collect();
    let mut node_paths = vec![];
    nodes_of(&root, &mut vec![], &mut node_paths);
    let node_paths: Vec<(String, String, bool)> = node_paths.into_iter().map(|(p, a, b)| (p.replace(" . ", "."), a, b)).collect();
    for (np, _, _) in &node_paths {
        let idx: Vec<usize> = paths.iter().enumerate().filter(|(_, p)| *p == np || p.starts_with(&format!("{}.", np))).map(|x| x.0).collect();
        if let (Some(lo), Some(hi)) = (idx.iter().min(), idx.iter().max()) {
            if hi - lo + 1 > idx.len() {
                interleaved = true;
            }
        }
    }
    let tree_order = raw.iter().map(|x| x.0).collect::<Vec<_>>() == order;
    // o2o groups members by exact path: a node's own leaves split by leaves of another path
    let mut split_groups = false;
    for p in paths.iter() {
        let idx: Vec<usize> = paths.iter().enumerate().filter(|(_, q)| *q == p).map(|x| x.0).collect();
        if let (Some(lo), Some(hi)) = (idx.iter().min(), idx.iter().max()) {
            if hi - lo + 1 > idx.len() {
                split_groups = true;
            }
        }
    }
    let mut cells = [[false; 6]; 2];
    let mut any = false;
    for group in [[FO, FR], [OI, RI], [OIE, RIE]] {
        if !t.chance(3, 4) {
            continue;
        }
        let f = t.chance(1, 4) as usize;
        for k in group {
            if t.chance(3, 4) {
                cells[f][k] = true;
                any = true;
            }
        }
    }
    if !any {
        cells[0][OI] = true;
    }
    let depth = depth_of(&root);
    FlatPlan { s_named, root, leaves, cells, depth, interleaved, tree_order, split_groups }
}

/// DSL spelling of a member path: two adjacent tuple indices would lex as a float literal (`0.1`), so they are
/// separated by spaces (`0 . 1`), which tokenises to the same member path.
pub fn dsl_path(comps: &[String]) -> String {
    let mut out = String::new();
    for (i, c) in comps.iter().enumerate() {
        if i > 0 {
            let prev_num = comps[i - 1].chars().all(|x| x.is_ascii_digit());
            let cur_num = c.chars().all(|x| x.is_ascii_digit());
            out.push_str(if prev_num && cur_num { " . " } else { "." });
        }
        out.push_str(c);
    }
    out
}

fn gen_e(t: &mut Tape) -> ExprT {
    match t.weighted(&[3, 3, 2]) {
        0 => ExprT::Id,
        1 => ExprT::Add(1 + t.below(9) as i64),
        _ => ExprT::MulSub(1 + t.below(9) as i64),
    }
}

// ------------------------------------------------------------------------------------------------

fn type_defs(n: &Node, out: &mut String) {
    let derives = "#[derive(Debug, Clone, PartialEq)]";
    // a generic node: its first member that is not a nested struct has type T
    let first_plain = n.slots.iter().position(|s| !matches!(s.1, Slot::Child(_)));
    let ty_of = |i: usize, s: &Slot| -> String { if n.generic && Some(i) == first_plain { "T".to_string() } else { slot_ty(s) } };
    let name = if n.generic { format!("{}<T>", n.ty) } else { n.ty.clone() };
    if n.tuple {
        let _ = write!(out, "{} pub struct {}({});\n", derives, name, n.slots.iter().enumerate().map(|(i, (_, s))| format!("pub {},", ty_of(i, s))).collect::<Vec<_>>().join(" "));
    } else {
        let _ = write!(out, "{} pub struct {} {{ {} }}\n", derives, name, n.slots.iter().enumerate().map(|(i, (m, s))| format!("pub {}: {},", m, ty_of(i, s))).collect::<Vec<_>>().join(" "));
    }
    for (_, s) in &n.slots {
        if let Slot::Child(c) = s {
            type_defs(c, out);
        }
    }
}

fn slot_ty(s: &Slot) -> String {
    match s {
        Slot::Child(c) => if c.generic { format!("{}<i64>", c.ty) } else { c.ty.clone() },
        _ => "i64".into(),
    }
}

/// nested literal; `leaf` renders the value for an S field id, `ghost` for a D-only constant
fn node_lit(n: &Node, leaf: &dyn Fn(usize) -> String, ghost: &dyn Fn(i64) -> String) -> String {
    let vals: Vec<(String, String)> = n
        .slots
        .iter()
        .map(|(m, s)| {
            (
                m.clone(),
                match s {
                    Slot::Leaf(id) => leaf(*id),
                    Slot::Child(c) => node_lit(c, leaf, ghost),
                    Slot::Ghost(c) => ghost(*c),
                },
            )
        })
        .collect();
    if n.tuple {
        format!("{}({})", n.ty, vals.iter().map(|(_, v)| format!("{},", v)).collect::<Vec<_>>().join(" "))
    } else {
        format!("{} {{ {} }}", n.ty, vals.iter().map(|(m, v)| format!("{}: {}", m, v)).collect::<Vec<_>>().join(", "))
    }
}

fn ghosts_of(n: &Node, path: &mut Vec<String>, out: &mut Vec<(Vec<String>, String, i64)>) {
    for (m, s) in &n.slots {
        match s {
            Slot::Ghost(c) => out.push((path.clone(), m.clone(), *c)),
            Slot::Child(ch) => {
                path.push(m.clone());
                ghosts_of(ch, path, out);
                path.pop();
            }
            _ => {}
        }
    }
}

fn nodes_of(n: &Node, path: &mut Vec<String>, out: &mut Vec<(String, String, bool)>) {
    for (m, s) in &n.slots {
        if let Slot::Child(ch) = s {
            path.push(m.clone());
            out.push((dsl_path(path), if ch.generic { format!("{}<i64>", ch.ty) } else { ch.ty.clone() }, ch.tuple));
            nodes_of(ch, path, out);
            path.pop();
        }
    }
}

pub fn render(t: &mut Tape, plan: &FlatPlan, core_only: bool) -> E2Case {
    let mut labels = vec![format!("depth:{}", plan.depth), format!("leaves:{}", plan.leaves.len()), if plan.s_named { "S:named".to_string() } else { "S:tuple".to_string() }];
    let mut facts = vec![];
    if plan.interleaved {
        labels.push("interleaved".into());
        facts.push("interleaved".into());
    }
    let has = |k: usize| plan.cells[0][k] || plan.cells[1][k];
    let has_from = has(FO) || has(FR);
    let has_into = has(OI) || has(RI);
    let has_ie = has(OIE) || has(RIE);
    if has_ie {
        facts.push("into-existing-requested".into());
    }
    if has_from {
        facts.push("from-requested".into());
    }
    if has_into {
        facts.push("into-requested".into());
    }
    if !plan.s_named {
        facts.push("S:tuple".into());
    }
    if plan.split_groups {
        labels.push("split-path-groups".into());
        facts.push("split-path-groups".into());
    }

    // ---- instructions -------------------------------------------------------------------------
    let mut type_instrs: Vec<Instr> = vec![];
    for f in 0..2 {
        if plan.cells[f].iter().any(|x| *x) {
            for name in crate::gen::cover_cells(t, plan.cells[f], f == 1) {
                type_instrs.push(Instr::Trait(TraitInstr { name, ty: "D".into(), hint: None, err: if f == 1 { Some("E".into()) } else { None }, params: vec![] }));
            }
        }
    }
    let mut nodes = vec![];
    nodes_of(&plan.root, &mut vec![], &mut nodes);
    if has_into || t.chance(1, 2) {
        let mut entries: Vec<(String, String, Option<Hint>)> = nodes
            .iter()
            .map(|(p, ty, tuple)| {
                // the default assumption is "same kind as the flat struct": say otherwise with a hint
                let hint = if *tuple && plan.s_named {
                    Some(Hint::Tuple)
                } else if !*tuple && !plan.s_named {
                    Some(Hint::Struct)
                } else if t.chance(1, 6) {
                    Some(if *tuple { Hint::Tuple } else { Hint::Struct })
                } else {
                    None
                };
                (p.clone(), ty.clone(), hint)
            })
            .collect();
        t.shuffle(&mut entries);
        if !entries.is_empty() {
            type_instrs.push(Instr::ChildParents { ded: if t.chance(1, 5) { Some("D".into()) } else { None }, entries });
        }
    }
    if nodes.iter().any(|n| n.2) {
        labels.push("tuple-node".into());
        facts.push("tuple-node".into());
    }
    let mut ghosts = vec![];
    ghosts_of(&plan.root, &mut vec![], &mut ghosts);
    if !ghosts.is_empty() && (has_into || has_ie) {
        labels.push("ghosts".into());
        if ghosts.iter().any(|g| !g.0.is_empty()) {
            labels.push("ghosts:child-path".into());
            facts.push("child-path-ghosts".into());
        }
        let entries: Vec<GhostEntry> = ghosts.iter().map(|(p, m, c)| GhostEntry { child_path: if p.is_empty() { None } else { Some(dsl_path(p)) }, ident: m.clone(), action: format!("{}", c) }).collect();
        type_instrs.push(Instr::Ghosts { name: "ghosts".into(), ded: None, entries });
    }
    if t.chance(1, 3) {
        t.shuffle(&mut type_instrs);
    }
    let mut fields_attr = String::new();
    let mut fields_plain = String::new();
    for l in &plan.leaves {
        let mut ins: Vec<Instr> = vec![];
        if !l.path.is_empty() {
            // a default #[child(..)] naming another node next to the one dedicated to D: the dedicated one must win
            // whatever the order (the default one would serve counterparts that have no dedicated instruction)
            let others: Vec<&(String, String, bool)> = nodes.iter().filter(|n| n.0 != dsl_path(&l.path)).collect();
            if !others.is_empty() && t.chance(1, 6) {
                labels.push("child:default-and-dedicated".into());
                let decoy = Instr::Child { ded: None, path: t.pick(&others).0.clone() };
                let real = Instr::Child { ded: Some("D".into()), path: dsl_path(&l.path) };
                if t.chance(2, 3) {
                    ins.push(decoy);
                    ins.push(real);
                } else {
                    ins.push(real);
                    ins.push(decoy);
                }
            } else {
                ins.push(Instr::Child { ded: if t.chance(1, 8) { Some("D".into()) } else { None }, path: dsl_path(&l.path) });
            }
        }
        let rename = l.member != l.s_name;
        let member = if rename { Some(l.member.clone()) } else { None };
        if rename || !l.from.is_id() || !l.into.is_id() {
            let fa = (member.clone(), l.from.dsl("~"));
            let ia = (member.clone(), l.into.dsl("~"));
            let mk = |name: &str, a: &(Option<String>, Option<String>)| -> Option<Instr> {
                if a.0.is_none() && a.1.is_none() {
                    None
                } else {
                    Some(Instr::Member(MemberInstr { name: name.into(), ded: None, member: a.0.clone(), action: a.1.clone() }))
                }
            };
            if fa == ia && t.coin() {
                ins.extend(mk("map", &fa));
            } else {
                if has_from {
                    ins.extend(mk("from", &fa));
                }
                if has_into || has_ie {
                    ins.extend(mk("into", &ia));
                }
            }
            if rename {
                labels.push("leaf-rename".into());
            }
        }
        if t.chance(1, 4) {
            ins.reverse();
        }
        let at: String = ins.into_iter().map(|i| format!("{} ", if t.chance(1, 6) { Attr::wrapped(vec![i]).render() } else { Attr::auto(i).render() })).collect();
        if plan.s_named {
            let _ = write!(fields_attr, "{}pub {}: i64, ", at, l.s_name);
            let _ = write!(fields_plain, "pub {}: i64, ", l.s_name);
        } else {
            let _ = write!(fields_attr, "{}pub i64, ", at);
            fields_plain.push_str("pub i64, ");
        }
    }
    let type_attr_text: String = type_instrs.into_iter().map(|i| format!("{}\n", if t.chance(1, 6) { Attr::wrapped(vec![i]).render() } else { Attr::auto(i).render() })).collect();
    let (open, close) = if plan.s_named { ("{ ", " }") } else { ("(", ");") };
    let derive_input = format!("{}pub struct S {}{}{}", type_attr_text, open, fields_attr, close);

    // ---- harness ------------------------------------------------------------------------------
    let mut h = String::new();
    h.push_str("#[derive(Debug, Clone, PartialEq)] pub struct E(pub i64);\n");
    let _ = write!(h, "#[derive(Debug, Clone, PartialEq)] pub struct S {}{}{}\n", open, fields_plain, close);
    type_defs(&plan.root, &mut h);
    // S field id -> position in S order
    let by_name = |name: &str| plan.leaves.iter().position(|l| l.s_name == name).unwrap();
    let _ = by_name;
    let leaf_of_id = |id: usize| -> &Leaf {
        // ids were assigned before shuffling; leaves carry their s_name = f<id> (named) or position (tuple)
        if plan.s_named {
            plan.leaves.iter().find(|l| l.s_name == format!("f{}", id)).unwrap()
        } else {
            // tuple S: recover through the (path, member) pair
            let mut raw = vec![];
            collect_leaves(&plan.root, &mut vec![], &mut raw);
            let (_, p, m) = raw.iter().find(|x| x.0 == id).unwrap().clone();
            plan.leaves.iter().find(|l| l.path == p && l.member == m).unwrap()
        }
    };
    // Into reference
    let into_lit = node_lit(&plan.root, &|id| { let l = leaf_of_id(id); l.into.reference(&format!("s.{}", l.s_name)) }, &|c| format!("{}", c));
    let _ = write!(h, "pub fn ref_into(s: &S) -> D {{ {} }}\n", into_lit);
    // sentinel / source values
    let mut sv = 0i64;
    let sent = node_lit(&plan.root, &|_| "-7001".to_string(), &|_| "-7002".to_string());
    let _ = write!(h, "pub fn sentinel() -> D {{ {} }}\n", sent);
    let cell = std::cell::Cell::new(5000i64);
    let dsrc = node_lit(&plan.root, &|id| { cell.set(cell.get() + 41); format!("{}", cell.get() + id as i64) }, &|_| { cell.set(cell.get() + 43); format!("{}", cell.get()) });
    let _ = write!(h, "pub fn mk_d() -> D {{ {} }}\n", dsrc);
    let svals: Vec<String> = plan.leaves.iter().map(|_| { sv += 37 + t.below(20) as i64; format!("{}", 1000 + sv) }).collect();
    if plan.s_named {
        let _ = write!(h, "pub fn mk_s() -> S {{ S {{ {} }} }}\n", plan.leaves.iter().zip(&svals).map(|(l, v)| format!("{}: {}", l.s_name, v)).collect::<Vec<_>>().join(", "));
    } else {
        let _ = write!(h, "pub fn mk_s() -> S {{ S({}) }}\n", svals.iter().map(|v| format!("{},", v)).collect::<Vec<_>>().join(" "));
    }
    // From reference
    let from_vals: Vec<String> = plan.leaves.iter().map(|l| { let p = if l.path.is_empty() { format!("value.{}", l.member) } else { format!("value.{}.{}", l.path.join("."), l.member) }; l.from.reference(&p) }).collect();
    if plan.s_named {
        let _ = write!(h, "pub fn ref_from(value: &D) -> S {{ S {{ {} }} }}\n", plan.leaves.iter().zip(&from_vals).map(|(l, v)| format!("{}: {}", l.s_name, v)).collect::<Vec<_>>().join(", "));
    } else {
        let _ = write!(h, "pub fn ref_from(value: &D) -> S {{ S({}) }}\n", from_vals.iter().map(|v| format!("{},", v)).collect::<Vec<_>>().join(" "));
    }
    // IntoExisting reference
    let mut ie = String::new();
    for l in &plan.leaves {
        let p = if l.path.is_empty() { format!("other.{}", l.member) } else { format!("other.{}.{}", l.path.join("."), l.member) };
        let _ = write!(ie, "{} = {}; ", p, l.into.reference(&format!("s.{}", l.s_name)));
    }
    for (p, m, c) in &ghosts {
        let path = if p.is_empty() { format!("other.{}", m) } else { format!("other.{}.{}", p.join("."), m) };
        let _ = write!(ie, "{} = {}; ", path, c);
    }
    let _ = write!(h, "pub fn ref_into_existing(s: &S, other: &mut D) {{ {} }}\n", ie);

    // ---- run ----------------------------------------------------------------------------------
    let mut r = String::new();
    if core_only {
        r.push_str("fn same<T>(_a: &T, _b: &T) {}\npub fn run() {\n");
    } else {
        r.push_str("fn chk<T: core::fmt::Debug + PartialEq>(out: &mut Vec<String>, fl: &str, got: &T, want: &T) { if got == want { out.push(format!(\"{} OK\", fl)); } else { out.push(format!(\"{} MISMATCH got={:?} want={:?}\", fl, got, want)); } }\n");
        r.push_str("pub fn run(out: &mut Vec<String>) {\n");
    }
    for (k, f) in [(FO, false), (FR, false), (OI, false), (RI, false), (OIE, false), (RIE, false), (FO, true), (FR, true), (OI, true), (RI, true), (OIE, true), (RIE, true)] {
        if !plan.cells[f as usize][k] {
            continue;
        }
        let stmt = match (k, f) {
            (FO, false) => "let got: S = ::core::convert::From::from(mk_d()); let want = ref_from(&mk_d());".to_string(),
            (FR, false) => "let src = mk_d(); let got: S = ::core::convert::From::from(&src); let want = ref_from(&src);".to_string(),
            (FO, true) => "let got: ::core::result::Result<S, E> = ::core::convert::TryFrom::try_from(mk_d()); let want: ::core::result::Result<S, E> = Ok(ref_from(&mk_d()));".to_string(),
            (FR, true) => "let src = mk_d(); let got: ::core::result::Result<S, E> = ::core::convert::TryFrom::try_from(&src); let want: ::core::result::Result<S, E> = Ok(ref_from(&src));".to_string(),
            (OI, false) => "let got: D = ::core::convert::Into::into(mk_s()); let want = ref_into(&mk_s());".to_string(),
            (RI, false) => "let src = mk_s(); let got: D = ::core::convert::Into::into(&src); let want = ref_into(&src);".to_string(),
            (OI, true) => "let got: ::core::result::Result<D, E> = ::core::convert::TryInto::try_into(mk_s()); let want: ::core::result::Result<D, E> = Ok(ref_into(&mk_s()));".to_string(),
            (RI, true) => "let src = mk_s(); let got: ::core::result::Result<D, E> = ::core::convert::TryInto::try_into(&src); let want: ::core::result::Result<D, E> = Ok(ref_into(&src));".to_string(),
            (OIE, false) => "let mut got = sentinel(); o2o::traits::IntoExisting::into_existing(mk_s(), &mut got); let mut want = sentinel(); ref_into_existing(&mk_s(), &mut want);".to_string(),
            (RIE, false) => "let src = mk_s(); let mut got = sentinel(); o2o::traits::IntoExisting::into_existing(&src, &mut got); let mut want = sentinel(); ref_into_existing(&src, &mut want);".to_string(),
            (OIE, true) => "let mut g = sentinel(); let r: ::core::result::Result<(), E> = o2o::traits::TryIntoExisting::try_into_existing(mk_s(), &mut g); let got = (r, g); let mut w = sentinel(); ref_into_existing(&mk_s(), &mut w); let want = (Ok(()), w);".to_string(),
            (RIE, true) => "let src = mk_s(); let mut g = sentinel(); let r: ::core::result::Result<(), E> = o2o::traits::TryIntoExisting::try_into_existing(&src, &mut g); let got = (r, g); let mut w = sentinel(); ref_into_existing(&src, &mut w); let want = (Ok(()), w);".to_string(),
            _ => unreachable!(),
        };
        if core_only {
            let _ = write!(r, "    {{ {} same(&got, &want); }}\n", stmt);
        } else {
            let _ = write!(r, "    {{ {} chk(out, \"{}\", &got, &want); }}\n", stmt, basic_name(k, f));
        }
    }
    r.push_str("}\n");
    let sibling_subtrees = plan.root.slots.iter().filter(|s| matches!(s.1, Slot::Child(_))).count() >= 2;
    let nontrivial = (plan.depth >= 2 || sibling_subtrees) && !plan.tree_order;
    if sibling_subtrees {
        labels.push("sibling-subtrees".into());
    }
    E2Case { harness_src: h, derives: vec![derive_input.clone()], run_src: r, key: derive_input, labels, nontrivial, facts }
}
