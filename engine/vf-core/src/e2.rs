//! E2 — generate program / compile / run engine.
//!
//! A case = harness-owned type definitions + derive input(s) + a hand-rolled reference
//! (rendered independently from the mapping plan) + a `run()` that exercises every requested
//! conversion on pairwise-distinct leaf values and prints one line per flavour.
//! The derive inputs are expanded in-process with the code under test, the expansion text is
//! pasted next to the attribute-free type definitions, batches of cases are compiled with rustc
//! against the no-feature `o2o` rlib (built from /repo/src/lib.rs) and run.

use crate::known::Known;
use crate::runner::{seed32, write_replay, PartStats, Tier, Violation};
use crate::xp::{expand, hash64, Outcome};
use proptest::strategy::{Strategy, ValueTree};
use proptest::test_runner::{Config, RngAlgorithm, TestRng, TestRunner};
use serde_json::{json, Value};
use std::collections::{BTreeMap, HashMap, HashSet};
use std::path::{Path, PathBuf};
use std::process::Command;
use std::sync::atomic::{AtomicUsize, Ordering};

#[derive(Clone, Debug)]
pub struct E2Case {
    /// items that must compile on their own: type definitions of both sides (without o2o attributes),
    /// helper fns, and the reference functions
    pub harness_src: String,
    /// derive inputs (type definition text *with* o2o attributes); each is expanded and pasted
    pub derives: Vec<String>,
    /// `pub fn run(out: &mut Vec<String>)` and its helpers: the only place that uses the generated impls
    pub run_src: String,
    pub key: String,
    pub labels: Vec<String>,
    pub nontrivial: bool,
    /// structural facts for known-finding matchers
    pub facts: Vec<String>,
}

#[derive(Clone, Debug, PartialEq)]
pub enum CaseOutcome {
    Pass { flavours: usize },
    /// generator produced something whose hand-written side does not compile
    InvalidGenerated(String),
    /// derive rejected / panicked on an input the plan says is valid
    Rejected(String),
    /// pasted expansion does not compile while the reference does
    CompileFail { code: String, msg: String, region: String },
    /// generated conversion returned something else than the reference
    Mismatch { flavour: String, got: String, want: String },
    RuntimePanic { flavour: String },
}

impl CaseOutcome {
    pub fn is_failure(&self) -> bool {
        !matches!(self, CaseOutcome::Pass { .. } | CaseOutcome::InvalidGenerated(_))
    }
    pub fn short(&self) -> String {
        match self {
            CaseOutcome::Pass { flavours } => format!("pass ({} flavours)", flavours),
            CaseOutcome::InvalidGenerated(m) => format!("invalid-generated: {}", m),
            CaseOutcome::Rejected(m) => format!("derive rejected a valid plan: {}", m),
            CaseOutcome::CompileFail { code, msg, region } => format!("generated code does not compile [{} in {}]: {}", code, region, msg),
            CaseOutcome::Mismatch { flavour, got, want } => format!("{}: got {} want {}", flavour, got, want),
            CaseOutcome::RuntimePanic { flavour } => format!("{}: panicked", flavour),
        }
    }
}

static RUN_COUNTER: AtomicUsize = AtomicUsize::new(0);

pub struct Workspace {
    pub dir: PathBuf,
    pub o2o_rlib: PathBuf,
}

impl Workspace {
    pub fn new(tag: &str) -> Result<Workspace, String> {
        let n = RUN_COUNTER.fetch_add(1, Ordering::SeqCst);
        let dir = PathBuf::from(format!("{}/work/e2-{}-{}-{}", crate::verif_root(), tag, std::process::id(), n));
        let _ = std::fs::remove_dir_all(&dir);
        std::fs::create_dir_all(&dir).map_err(|e| e.to_string())?;
        let o2o_rlib = dir.join("libo2o.rlib");
        let out = Command::new("rustc")
            .args(["--edition", "2021", "--crate-type", "rlib", "--crate-name", "o2o", "-A", "warnings", "-o"])
            .arg(&o2o_rlib)
            .arg(format!("{}/src/lib.rs", crate::repo_root()))
            .output()
            .map_err(|e| format!("cannot run rustc: {}", e))?;
        if !out.status.success() {
            return Err(format!("/repo/src/lib.rs does not compile: {}", String::from_utf8_lossy(&out.stderr).chars().take(400).collect::<String>()));
        }
        Ok(Workspace { dir, o2o_rlib })
    }
}

impl Drop for Workspace {
    fn drop(&mut self) {
        if std::env::var("VF_KEEP_WORK").is_err() {
            let _ = std::fs::remove_dir_all(&self.dir);
        }
    }
}

#[derive(Clone, Copy, PartialEq)]
pub enum Mode {
    /// std binary, compiled and run
    Run,
    /// `#![no_std]` rlib, type-checked only
    NoStdCheck,
    /// std rlib, type-checked only
    Check,
}

struct Diag {
    file: String,
    code: String,
    msg: String,
}

fn parse_diags(stderr: &str) -> Vec<Diag> {
    let mut out = vec![];
    for line in stderr.lines() {
        let v: Value = match serde_json::from_str(line) {
            Ok(v) => v,
            Err(_) => continue,
        };
        if v["level"].as_str() != Some("error") {
            continue;
        }
        let code = v["code"]["code"].as_str().unwrap_or("").to_string();
        let msg = v["message"].as_str().unwrap_or("").to_string();
        if msg.starts_with("aborting due to") {
            continue;
        }
        // primary span; macro-expanded spans point into the include!d file through `expansion`
        let mut file = String::new();
        if let Some(spans) = v["spans"].as_array() {
            for s in spans {
                if s["is_primary"].as_bool() == Some(true) {
                    file = s["file_name"].as_str().unwrap_or("").to_string();
                }
            }
            if file.is_empty() {
                if let Some(s) = spans.first() {
                    file = s["file_name"].as_str().unwrap_or("").to_string();
                }
            }
        }
        out.push(Diag { file, code, msg });
    }
    out
}

/// Expand the derives of a case; Err = outcome that ends the case without rustc.
fn expand_case(c: &E2Case) -> Result<String, CaseOutcome> {
    let mut pasted = String::new();
    for d in &c.derives {
        match expand(d) {
            Outcome::Ok(ts) => {
                pasted.push_str(&ts);
                pasted.push('\n');
            }
            Outcome::Err(m) => return Err(CaseOutcome::Rejected(format!("{:?}", m))),
            Outcome::Panic(m) => return Err(CaseOutcome::Rejected(format!("panic: {}", m))),
            Outcome::NotAnItem(m) => return Err(CaseOutcome::InvalidGenerated(format!("derive input does not parse: {}", m))),
        }
    }
    // a syntactically broken expansion would abort parsing of the whole batch: catch it here
    if let Err(e) = syn2full::parse_str::<syn2full::File>(&pasted) {
        return Err(CaseOutcome::CompileFail { code: "syntax".into(), msg: e.to_string(), region: "o2o".into() });
    }
    Ok(pasted)
}

/// Compile (and run) one batch. `cases[i]` gets module `case_<i>`.
pub fn run_batch(ws: &Workspace, tag: &str, cases: &[&E2Case], mode: Mode) -> Result<Vec<CaseOutcome>, String> {
    let dir = ws.dir.join(format!("b-{}", tag));
    let _ = std::fs::remove_dir_all(&dir);
    std::fs::create_dir_all(&dir).map_err(|e| e.to_string())?;
    let mut outcomes: Vec<Option<CaseOutcome>> = vec![None; cases.len()];
    let mut live: Vec<usize> = vec![];
    for (i, c) in cases.iter().enumerate() {
        match expand_case(c) {
            Ok(p) => {
                std::fs::write(dir.join(format!("case_{}.o2o.rs", i)), p).map_err(|e| e.to_string())?;
                let body = format!(
                    "#![allow(warnings)]\n{}\ninclude!(\"case_{}.o2o.rs\");\n#[path = \"case_{}.run.rs\"] mod run_mod;\npub use run_mod::run;\n",
                    c.harness_src, i, i
                );
                std::fs::write(dir.join(format!("case_{}.rs", i)), body).map_err(|e| e.to_string())?;
                let run_body = format!("#![allow(warnings)]\nuse super::*;\n{}\n", if mode == Mode::Run { c.run_src.clone() } else { format!("{}\n", c.run_src) });
                std::fs::write(dir.join(format!("case_{}.run.rs", i)), run_body).map_err(|e| e.to_string())?;
                live.push(i);
            }
            Err(o) => outcomes[i] = Some(o),
        }
    }

    for _round in 0..6 {
        if live.is_empty() {
            break;
        }
        let mut main = String::new();
        match mode {
            Mode::Run => main.push_str("#![allow(warnings)]\n"),
            Mode::NoStdCheck => main.push_str("#![no_std]\n#![allow(warnings)]\n"),
            Mode::Check => main.push_str("#![allow(warnings)]\n"),
        }
        for i in &live {
            main.push_str(&format!("#[path = \"case_{}.rs\"] pub mod case_{};\n", i, i));
        }
        if mode == Mode::Run {
            main.push_str("fn main() {\n    std::panic::set_hook(Box::new(|_| {}));\n    let stdout = std::io::stdout();\n    use std::io::Write;\n");
            for i in &live {
                main.push_str(&format!(
                    "    {{ let mut out: Vec<String> = vec![]; let r = std::panic::catch_unwind(std::panic::AssertUnwindSafe(|| case_{i}::run(&mut out))); for l in &out {{ writeln!(stdout.lock(), \"R {i} {{}}\", l).unwrap(); }} if r.is_err() {{ writeln!(stdout.lock(), \"R {i} ? PANIC\").unwrap(); }} writeln!(stdout.lock(), \"E {i}\").unwrap(); }}\n",
                    i = i
                ));
            }
            main.push_str("}\n");
        }
        let main_path = dir.join("main.rs");
        std::fs::write(&main_path, main).map_err(|e| e.to_string())?;
        let mut cmd = Command::new("rustc");
        cmd.current_dir(&dir).args(["--edition", "2021", "--error-format=json", "-A", "warnings", "-C", "debuginfo=0", "-C", "opt-level=0", "--extern"]).arg(format!("o2o={}", ws.o2o_rlib.display()));
        match mode {
            Mode::Run => {
                cmd.args(["--crate-name", "batch", "-o"]).arg(dir.join("batch.bin"));
            }
            Mode::NoStdCheck | Mode::Check => {
                cmd.args(["--crate-type", "rlib", "--crate-name", "batch", "--emit=metadata", "-o"]).arg(dir.join("libbatch.rmeta"));
            }
        }
        cmd.arg(&main_path);
        let out = cmd.output().map_err(|e| format!("cannot run rustc: {}", e))?;
        if out.status.success() {
            break;
        }
        let diags = parse_diags(&String::from_utf8_lossy(&out.stderr));
        if diags.is_empty() {
            return Err(format!("rustc failed without a diagnostic: {}", String::from_utf8_lossy(&out.stderr).chars().take(600).collect::<String>()));
        }
        // attribute diagnostics to cases and regions
        let mut per_case: BTreeMap<usize, Vec<(String, &Diag)>> = BTreeMap::new();
        let mut unattributed = vec![];
        for d in &diags {
            let fname = Path::new(&d.file).file_name().map(|f| f.to_string_lossy().to_string()).unwrap_or_default();
            let attributed = fname.strip_prefix("case_").and_then(|rest| {
                let num: String = rest.chars().take_while(|c| c.is_ascii_digit()).collect();
                let idx: usize = num.parse().ok()?;
                let region = if rest.ends_with(".o2o.rs") {
                    "o2o"
                } else if rest.ends_with(".run.rs") {
                    "run"
                } else {
                    "harness"
                };
                Some((idx, region.to_string()))
            });
            match attributed {
                Some((idx, region)) => per_case.entry(idx).or_default().push((region, d)),
                None => unattributed.push(d),
            }
        }
        if per_case.is_empty() {
            return Err(format!("rustc error not attributable to a case: {} {}", unattributed.first().map(|d| d.code.clone()).unwrap_or_default(), unattributed.first().map(|d| d.msg.clone()).unwrap_or_default()));
        }
        for (idx, ds) in per_case {
            let harness = ds.iter().find(|(r, _)| r == "harness");
            let o2o = ds.iter().find(|(r, _)| r == "o2o");
            let run = ds.iter().find(|(r, _)| r == "run");
            let outcome = if let Some((_, d)) = harness {
                CaseOutcome::InvalidGenerated(format!("{} {}", d.code, d.msg))
            } else if let Some((_, d)) = o2o {
                CaseOutcome::CompileFail { code: d.code.clone(), msg: d.msg.clone(), region: "o2o".into() }
            } else {
                let d = run.unwrap().1;
                CaseOutcome::CompileFail { code: d.code.clone(), msg: d.msg.clone(), region: "use-site".into() }
            };
            outcomes[idx] = Some(outcome);
            live.retain(|x| *x != idx);
        }
    }

    if mode == Mode::Run && !live.is_empty() {
        let out = Command::new(dir.join("batch.bin")).output().map_err(|e| format!("cannot run batch: {}", e))?;
        let text = String::from_utf8_lossy(&out.stdout);
        let mut lines: HashMap<usize, Vec<String>> = HashMap::new();
        let mut ended: HashSet<usize> = HashSet::new();
        for l in text.lines() {
            let mut it = l.splitn(3, ' ');
            match (it.next(), it.next().and_then(|x| x.parse::<usize>().ok())) {
                (Some("R"), Some(i)) => lines.entry(i).or_default().push(it.next().unwrap_or("").to_string()),
                (Some("E"), Some(i)) => {
                    ended.insert(i);
                }
                _ => {}
            }
        }
        for i in &live {
            if !ended.contains(i) {
                outcomes[*i] = Some(CaseOutcome::RuntimePanic { flavour: "process died before the case finished".into() });
                continue;
            }
            let ls = lines.remove(i).unwrap_or_default();
            let mut verdict = CaseOutcome::Pass { flavours: ls.len() };
            for l in &ls {
                // "<flavour> OK" | "<flavour> MISMATCH got=<..> want=<..>" | "? PANIC"
                let (fl, rest) = l.split_once(' ').unwrap_or((l.as_str(), ""));
                if rest.starts_with("OK") {
                    continue;
                }
                if rest.starts_with("PANIC") {
                    verdict = CaseOutcome::RuntimePanic { flavour: ls.last().map(|x| x.split(' ').next().unwrap_or("").to_string()).unwrap_or_default() };
                    break;
                }
                let got = rest.split(" want=").next().unwrap_or("").trim_start_matches("MISMATCH got=").to_string();
                let want = rest.split(" want=").nth(1).unwrap_or("").to_string();
                verdict = CaseOutcome::Mismatch { flavour: fl.to_string(), got, want };
                break;
            }
            if let CaseOutcome::Pass { flavours: 0 } = verdict {
                verdict = CaseOutcome::InvalidGenerated("case exercised no flavour".into());
            }
            outcomes[*i] = Some(verdict);
        }
    } else {
        for i in &live {
            outcomes[*i] = Some(CaseOutcome::Pass { flavours: 1 });
        }
    }
    if std::env::var("VF_KEEP_WORK").is_err() {
        let _ = std::fs::remove_dir_all(&dir);
    }
    Ok(outcomes.into_iter().map(|o| o.unwrap_or(CaseOutcome::InvalidGenerated("no outcome".into()))).collect())
}

/// An E2 part: tape -> case; plus the known-finding matcher.
pub trait E2Part: Sync {
    fn name(&self) -> &'static str;
    fn prop(&self) -> &'static str;
    fn rule(&self) -> String;
    fn max_tape(&self) -> usize {
        256
    }
    fn cases(&self, tier: Tier) -> usize;
    fn mode(&self) -> Mode {
        Mode::Run
    }
    fn gen(&self, tape: &[u16]) -> E2Case;
    /// signature of a failure for known-finding matching (None = always reported)
    fn sig(&self, case: &E2Case, outcome: &CaseOutcome) -> Option<String>;
}

const BATCH: usize = 150;

pub fn run_e2_part(part: &dyn E2Part, tier: Tier, seed: u64, known: &Known) -> Result<PartStats, String> {
    let n = part.cases(tier);
    let ws = Workspace::new(&format!("{}-{}", part.prop(), part.name()))?;
    let cfg = Config { failure_persistence: None, ..Config::default() };
    let rng = TestRng::from_seed(RngAlgorithm::ChaCha, &seed32(seed, part.prop(), part.name(), 0));
    let mut runner = TestRunner::new_with_rng(cfg, rng);
    let strat = proptest::collection::vec(proptest::num::u16::ANY, 0..=part.max_tape());
    let mut trees = vec![];
    let mut cases: Vec<E2Case> = vec![];
    for _ in 0..n {
        let tree = strat.new_tree(&mut runner).map_err(|e| e.to_string())?;
        cases.push(part.gen(&tree.current()));
        trees.push(tree);
    }
    // batches in parallel
    let chunks: Vec<(usize, &[E2Case])> = cases.chunks(BATCH).enumerate().collect();
    let results: std::sync::Mutex<Vec<(usize, Result<Vec<CaseOutcome>, String>)>> = std::sync::Mutex::new(vec![]);
    let next = AtomicUsize::new(0);
    std::thread::scope(|s| {
        for _ in 0..16 {
            s.spawn(|| loop {
                let k = next.fetch_add(1, Ordering::SeqCst);
                if k >= chunks.len() {
                    break;
                }
                let (bi, chunk) = chunks[k];
                let refs: Vec<&E2Case> = chunk.iter().collect();
                let r = run_batch(&ws, &format!("{}", bi), &refs, part.mode());
                results.lock().unwrap().push((bi, r));
            });
        }
    });
    let mut results = results.into_inner().unwrap();
    results.sort_by_key(|x| x.0);
    let mut outcomes: Vec<CaseOutcome> = vec![];
    for (_, r) in results {
        outcomes.extend(r?);
    }

    let mut st = PartStats { name: part.name().into(), rule: part.rule(), ..Default::default() };
    let mut nt = HashSet::new();
    let mut all = HashSet::new();
    let mut invalid = 0u64;
    let mut first_fail: Option<usize> = None;
    let census = crate::runner::census();
    for (i, o) in outcomes.iter().enumerate() {
        st.evaluations += 1;
        let c = &cases[i];
        if let CaseOutcome::InvalidGenerated(why) = o {
            invalid += 1;
            st.discards += 1;
            *st.discard_reasons.entry(why.chars().take(60).collect()).or_default() += 1;
            continue;
        }
        let h = hash64(&c.key);
        all.insert(h);
        if c.nontrivial {
            st.nontrivial_total += 1;
            if nt.insert(h) && st.samples.len() < 6 {
                st.samples.push(json!({"case": c.key, "labels": c.labels}));
            }
        }
        for l in &c.labels {
            *st.labels.entry(l.clone()).or_default() += 1;
        }
        if let CaseOutcome::Pass { flavours } = o {
            *st.labels.entry(format!("flavours:{}", (*flavours).min(12))).or_default() += 1;
        }
        if o.is_failure() {
            let sig = part.sig(c, o);
            match sig {
                Some(s) if known.is_open(part.prop(), &s) || census => {
                    *st.known_hits.entry(s.clone()).or_default() += 1;
                    if census {
                        crate::runner::dump_census(part.prop(), part.name(), &s, &trees[i].current(), &format!("{}\n// outcome: {}", c.key, o.short()));
                    }
                }
                _ => {
                    if first_fail.is_none() {
                        first_fail = Some(i);
                    }
                }
            }
        }
    }
    st.distinct_nontrivial = nt.len() as u64;
    st.distinct_total = all.len() as u64;
    st.extra.insert("invalid_generated".into(), json!(invalid));
    if invalid * 50 > st.evaluations.max(1) * 3 {
        // > 6 %: the generator is wrong, not the code under test
        return Err(format!("{} of {} generated cases do not compile on the hand-written side (generator bug): {:?}", invalid, st.evaluations, st.discard_reasons.iter().next()));
    }

    if let Some(i) = first_fail {
        let mut tree = trees.swap_remove(i);
        let fails = |tape: &Vec<u16>| -> Option<CaseOutcome> {
            let c = part.gen(tape);
            let r = run_batch(&ws, "shrink", &[&c], part.mode()).ok()?;
            let o = r.into_iter().next()?;
            if !o.is_failure() {
                return None;
            }
            match part.sig(&c, &o) {
                Some(s) if known.is_open(part.prop(), &s) => None,
                _ => Some(o),
            }
        };
        let mut best = tree.current();
        let mut best_outcome = outcomes[i].clone();
        let mut steps = 0;
        let max_steps = match tier {
            Tier::Quick => 60,
            Tier::Thorough => 200,
        };
        let mut shrunk = 0u64;
        'outer: while steps < max_steps {
            if !tree.simplify() {
                break;
            }
            loop {
                steps += 1;
                let cur = tree.current();
                if let Some(o) = fails(&cur) {
                    best = cur;
                    best_outcome = o;
                    shrunk += 1;
                    break;
                }
                if !tree.complicate() || steps >= max_steps {
                    if steps >= max_steps {
                        break 'outer;
                    }
                    break;
                }
            }
        }
        let c = part.gen(&best);
        let msg = best_outcome.short();
        let detail = json!({"key": c.key, "derives": c.derives, "harness": c.harness_src, "run": c.run_src, "outcome": msg, "facts": c.facts, "sig": part.sig(&c, &best_outcome)});
        st.extra.insert("shrink_steps".into(), json!(shrunk));
        let path = write_replay(part.prop(), part.name(), &format!("s{}", seed), &best, &msg, &detail);
        st.violations.push(Violation { replay: path, msg });
    }
    Ok(st)
}

/// Replay one tape through an E2 part (strict: known findings not tolerated unless `known` lists them and !strict).
pub fn replay_e2(part: &dyn E2Part, tape: &[u16], stored: Option<E2Case>, known: &Known, strict: bool) -> Result<Option<String>, String> {
    let ws = Workspace::new(&format!("replay-{}", part.prop()))?;
    // the stored program (type definitions, derive inputs, reference functions, run) wins over the tape: the tape only
    // reproduces it with the generator it was drawn from; the derive inputs are expanded again with the current /repo
    let c = match stored {
        Some(c) => c,
        None => part.gen(tape),
    };
    let r = run_batch(&ws, "replay", &[&c], part.mode())?;
    let o = r.into_iter().next().ok_or("no outcome")?;
    if !o.is_failure() {
        return Ok(None);
    }
    if !strict {
        if let Some(s) = part.sig(&c, &o) {
            if known.is_open(part.prop(), &s) {
                return Ok(None);
            }
        }
    }
    Ok(Some(o.short()))
}
