//! L1: a typed model of o2o's attribute language on a derive-input skeleton,
//! with a renderer to source text.  Generators build values of these types,
//! metamorphic oracles rewrite them (expand shortcuts, respell, project onto a
//! counterpart, write repeats out) and render both sides.

use std::fmt::Write;

#[derive(Clone, Copy, Debug, PartialEq, Eq, Hash)]
pub enum Hint {
    Struct,
    Tuple,
    Unit,
}

impl Hint {
    pub fn text(self) -> &'static str {
        match self {
            Hint::Struct => "as {}",
            Hint::Tuple => "as ()",
            Hint::Unit => "as Unit",
        }
    }
}

pub const TRAIT_NAMES: [&str; 24] = [
    "owned_into", "ref_into", "into", "from_owned", "from_ref", "from", "map_owned", "map_ref", "map", "owned_into_existing", "ref_into_existing", "into_existing",
    "owned_try_into", "ref_try_into", "try_into", "try_from_owned", "try_from_ref", "try_from", "try_map_owned", "try_map_ref", "try_map", "owned_try_into_existing",
    "ref_try_into_existing", "try_into_existing",
];

/// The 21 member-level mapping names (no fallible into_existing forms at member level).
pub const MEMBER_MAP_NAMES: [&str; 21] = [
    "owned_into", "ref_into", "into", "from_owned", "from_ref", "from", "map_owned", "map_ref", "map", "owned_into_existing", "ref_into_existing", "into_existing",
    "owned_try_into", "ref_try_into", "try_into", "try_from_owned", "try_from_ref", "try_from", "try_map_owned", "try_map_ref", "try_map",
];

/// Names registered in o2o-macros' `attributes(...)`: only these have a bare form a user can write.
pub const BARE_NAMES: [&str; 34] = [
    "owned_into", "ref_into", "into", "from_owned", "from_ref", "from", "map_owned", "map_ref", "map", "owned_try_into", "ref_try_into", "try_into", "owned_into_existing",
    "ref_into_existing", "into_existing", "try_from_owned", "try_from_ref", "try_from", "try_map_owned", "try_map_ref", "try_map", "owned_try_into_existing",
    "ref_try_into_existing", "try_into_existing", "child", "children", "child_parents", "parent", "ghost", "ghosts", "where_clause", "literal", "pattern", "type_hint",
];

pub fn has_bare_form(name: &str) -> bool {
    BARE_NAMES.contains(&name)
}

/// Conversion kind cells: index 0..6 = OwnedInto, RefInto, FromOwned, FromRef, OwnedIntoExisting, RefIntoExisting.
pub const KIND_NAMES: [&str; 6] = ["owned_into", "ref_into", "from_owned", "from_ref", "owned_into_existing", "ref_into_existing"];
pub const OI: usize = 0;
pub const RI: usize = 1;
pub const FO: usize = 2;
pub const FR: usize = 3;
pub const OIE: usize = 4;
pub const RIE: usize = 5;

/// Independent transcription of the README table (lines 190-264): name -> (kinds, fallible).
pub fn trait_name_cells(name: &str) -> Option<(Vec<usize>, bool)> {
    let (base, fallible): (&str, bool) = match name {
        "owned_try_into" => ("owned_into", true),
        "ref_try_into" => ("ref_into", true),
        "try_into" => ("into", true),
        "try_from_owned" => ("from_owned", true),
        "try_from_ref" => ("from_ref", true),
        "try_from" => ("from", true),
        "try_map_owned" => ("map_owned", true),
        "try_map_ref" => ("map_ref", true),
        "try_map" => ("map", true),
        "owned_try_into_existing" => ("owned_into_existing", true),
        "ref_try_into_existing" => ("ref_into_existing", true),
        "try_into_existing" => ("into_existing", true),
        other => (other, false),
    };
    let kinds = match base {
        "owned_into" => vec![OI],
        "ref_into" => vec![RI],
        "from_owned" => vec![FO],
        "from_ref" => vec![FR],
        "owned_into_existing" => vec![OIE],
        "ref_into_existing" => vec![RIE],
        "map" => vec![FO, FR, OI, RI],
        "from" => vec![FO, FR],
        "into" => vec![OI, RI],
        "map_owned" => vec![FO, OI],
        "map_ref" => vec![FR, RI],
        "into_existing" => vec![OIE, RIE],
        _ => return None,
    };
    Some((kinds, fallible))
}

/// The basic instruction name for (kind, fallible).
pub fn basic_name(kind: usize, fallible: bool) -> &'static str {
    match (kind, fallible) {
        (OI, false) => "owned_into",
        (RI, false) => "ref_into",
        (FO, false) => "from_owned",
        (FR, false) => "from_ref",
        (OIE, false) => "owned_into_existing",
        (RIE, false) => "ref_into_existing",
        (OI, true) => "owned_try_into",
        (RI, true) => "ref_try_into",
        (FO, true) => "try_from_owned",
        (FR, true) => "try_from_ref",
        (OIE, true) => "owned_try_into_existing",
        (RIE, true) => "ref_try_into_existing",
        _ => unreachable!(),
    }
}

#[derive(Clone, Debug, PartialEq)]
pub enum TParam {
    Vars(Vec<(String, String)>),
    Attribute(String),
    ImplAttribute(String),
    InnerAttribute(String),
    Repeat(Vec<String>),
    SkipRepeat,
    StopRepeat,
    /// `..expr`
    Update(String),
    /// `return expr`
    Return(String),
    /// `_ => expr` (text is `expr`)
    DefaultCase(String),
    Raw(String),
}

impl TParam {
    pub fn render(&self) -> String {
        match self {
            TParam::Vars(v) => format!("vars({})", v.iter().map(|(n, e)| format!("{}: {{{}}}", n, e)).collect::<Vec<_>>().join(", ")),
            TParam::Attribute(a) => format!("attribute({})", a),
            TParam::ImplAttribute(a) => format!("impl_attribute({})", a),
            TParam::InnerAttribute(a) => format!("inner_attribute({})", a),
            TParam::Repeat(c) => format!("repeat({})", c.join(", ")),
            TParam::SkipRepeat => "skip_repeat".into(),
            TParam::StopRepeat => "stop_repeat".into(),
            TParam::Update(e) => format!("..{}", e),
            TParam::Return(e) => format!("return {}", e),
            TParam::DefaultCase(e) => format!("_ => {}", e),
            TParam::Raw(s) => s.clone(),
        }
    }
    pub fn is_tail(&self) -> bool {
        matches!(self, TParam::Update(_) | TParam::Return(_) | TParam::DefaultCase(_))
    }
    pub fn is_repeat_related(&self) -> bool {
        matches!(self, TParam::Repeat(_) | TParam::SkipRepeat | TParam::StopRepeat)
    }
}

#[derive(Clone, Debug, PartialEq)]
pub struct TraitInstr {
    pub name: String,
    pub ty: String,
    pub hint: Option<Hint>,
    pub err: Option<String>,
    pub params: Vec<TParam>,
}

impl TraitInstr {
    pub fn args(&self) -> String {
        let mut s = self.ty.clone();
        if let Some(h) = self.hint {
            let _ = write!(s, " {}", h.text());
        }
        if let Some(e) = &self.err {
            let _ = write!(s, ", {}", e);
        }
        if !self.params.is_empty() {
            s.push_str("| ");
            s.push_str(&self.params.iter().map(|p| p.render()).collect::<Vec<_>>().join(", "));
        }
        s
    }
    pub fn fallible(&self) -> bool {
        trait_name_cells(&self.name).map(|x| x.1).unwrap_or(false)
    }
    pub fn kinds(&self) -> Vec<usize> {
        trait_name_cells(&self.name).map(|x| x.0).unwrap_or_default()
    }
}

/// `[Ded|] [member,] [action]`
#[derive(Clone, Debug, PartialEq)]
pub struct MemberInstr {
    pub name: String,
    pub ded: Option<String>,
    pub member: Option<String>,
    pub action: Option<String>,
}

impl MemberInstr {
    pub fn args(&self) -> Option<String> {
        let mut parts = String::new();
        if let Some(d) = &self.ded {
            let _ = write!(parts, "{}| ", d);
        }
        match (&self.member, &self.action) {
            (Some(m), Some(a)) => {
                let _ = write!(parts, "{}, {}", m, a);
            }
            (Some(m), None) => parts.push_str(m),
            (None, Some(a)) => parts.push_str(a),
            (None, None) => {
                if self.ded.is_none() {
                    return None;
                }
            }
        }
        Some(parts)
    }
}

#[derive(Clone, Debug, PartialEq)]
pub struct GhostEntry {
    /// `a.b` in `a.b@g: {..}`
    pub child_path: Option<String>,
    /// `g`, `1`, `V`, `V(x, ..)`, `V { x, .. }`
    pub ident: String,
    /// expression inside the mandatory braces
    pub action: String,
}

#[derive(Clone, Debug, PartialEq)]
pub struct ParentField {
    /// `[map(x)]`, `[from(y, ~ + 1)]` ... (name, args)
    pub attrs: Vec<(String, String)>,
    /// `[parent(...)]`
    pub nested: Option<Vec<ParentField>>,
    pub member: String,
    pub ty: Option<String>,
}

impl ParentField {
    pub fn render(&self) -> String {
        let mut s = String::new();
        for (n, a) in &self.attrs {
            let _ = write!(s, "[{}({})] ", n, a);
        }
        if let Some(n) = &self.nested {
            let _ = write!(s, "[parent({})] ", n.iter().map(|x| x.render()).collect::<Vec<_>>().join(", "));
        }
        s.push_str(&self.member);
        if let Some(t) = &self.ty {
            let _ = write!(s, ": {}", t);
        }
        s
    }
}

#[derive(Clone, Debug, PartialEq)]
pub enum Instr {
    Trait(TraitInstr),
    Member(MemberInstr),
    /// ghost / ghost_owned / ghost_ref
    Ghost { name: String, ded: Option<String>, action: Option<String> },
    /// ghosts / ghosts_owned / ghosts_ref
    Ghosts { name: String, ded: Option<String>, entries: Vec<GhostEntry> },
    Child { ded: Option<String>, path: String },
    ChildParents { ded: Option<String>, entries: Vec<(String, String, Option<Hint>)> },
    Parent { ded: Option<String>, fields: Option<Vec<ParentField>> },
    AsType { ded: Option<String>, member: Option<String>, ty: String },
    Literal { ded: Option<String>, tokens: String },
    Pattern { ded: Option<String>, tokens: String },
    TypeHint { ded: Option<String>, hint: Hint },
    Repeat { permeate: bool, cats: Vec<String>, parens: bool },
    SkipRepeat,
    StopRepeat,
    Where { ded: Option<String>, preds: String },
    AllowUnknown,
    Raw { name: String, args: Option<String> },
}

fn ded_prefix(d: &Option<String>) -> String {
    match d {
        Some(d) => format!("{}| ", d),
        None => String::new(),
    }
}

impl Instr {
    pub fn name(&self) -> String {
        match self {
            Instr::Trait(t) => t.name.clone(),
            Instr::Member(m) => m.name.clone(),
            Instr::Ghost { name, .. } | Instr::Ghosts { name, .. } => name.clone(),
            Instr::Child { .. } => "child".into(),
            Instr::ChildParents { .. } => "child_parents".into(),
            Instr::Parent { .. } => "parent".into(),
            Instr::AsType { .. } => "as_type".into(),
            Instr::Literal { .. } => "literal".into(),
            Instr::Pattern { .. } => "pattern".into(),
            Instr::TypeHint { .. } => "type_hint".into(),
            Instr::Repeat { .. } => "repeat".into(),
            Instr::SkipRepeat => "skip_repeat".into(),
            Instr::StopRepeat => "stop_repeat".into(),
            Instr::Where { .. } => "where_clause".into(),
            Instr::AllowUnknown => "allow_unknown".into(),
            Instr::Raw { name, .. } => name.clone(),
        }
    }

    pub fn args(&self) -> Option<String> {
        match self {
            Instr::Trait(t) => Some(t.args()),
            Instr::Member(m) => m.args(),
            Instr::Ghost { ded, action, .. } => match (ded, action) {
                (None, None) => None,
                (d, Some(a)) => Some(format!("{}{}", ded_prefix(d), a)),
                (Some(d), None) => Some(d.clone()),
            },
            Instr::Ghosts { ded, entries, .. } => Some(format!(
                "{}{}",
                ded_prefix(ded),
                entries
                    .iter()
                    .map(|e| match &e.child_path {
                        Some(p) => format!("{}@{}: {{{}}}", p, e.ident, e.action),
                        None => format!("{}: {{{}}}", e.ident, e.action),
                    })
                    .collect::<Vec<_>>()
                    .join(", ")
            )),
            Instr::Child { ded, path } => Some(format!("{}{}", ded_prefix(ded), path)),
            Instr::ChildParents { ded, entries } => Some(format!(
                "{}{}",
                ded_prefix(ded),
                entries
                    .iter()
                    .map(|(p, t, h)| match h {
                        Some(h) => format!("{}: {} {}", p, t, h.text()),
                        None => format!("{}: {}", p, t),
                    })
                    .collect::<Vec<_>>()
                    .join(", ")
            )),
            Instr::Parent { ded, fields } => match (ded, fields) {
                (None, None) => None,
                (Some(d), None) => Some(d.clone()),
                (d, Some(f)) => {
                    // DSL lexical rule: `parent(x)` with a lone path means "dedicated to type x"; a single plain
                    // child field is therefore written with a trailing comma when no dedication prefix is present.
                    let lone = d.is_none() && f.len() == 1 && f[0].attrs.is_empty() && f[0].nested.is_none() && f[0].ty.is_none();
                    Some(format!("{}{}{}", ded_prefix(d), f.iter().map(|x| x.render()).collect::<Vec<_>>().join(", "), if lone { "," } else { "" }))
                }
            },
            Instr::AsType { ded, member, ty } => Some(match member {
                Some(m) => format!("{}{}, {}", ded_prefix(ded), m, ty),
                None => format!("{}{}", ded_prefix(ded), ty),
            }),
            Instr::Literal { ded, tokens } | Instr::Pattern { ded, tokens } => Some(format!("{}{}", ded_prefix(ded), tokens)),
            Instr::TypeHint { ded, hint } => Some(format!("{}{}", ded_prefix(ded), hint.text())),
            Instr::Repeat { permeate, cats, parens } => {
                let mut parts: Vec<String> = vec![];
                if *permeate {
                    parts.push("permeate()".into());
                }
                parts.extend(cats.iter().cloned());
                if parts.is_empty() && !*parens {
                    None
                } else {
                    Some(parts.join(", "))
                }
            }
            Instr::SkipRepeat | Instr::StopRepeat | Instr::AllowUnknown => None,
            Instr::Where { ded, preds } => Some(format!("{}{}", ded_prefix(ded), preds)),
            Instr::Raw { args, .. } => args.clone(),
        }
    }

    pub fn render(&self) -> String {
        match self.args() {
            Some(a) => format!("{}({})", self.name(), a),
            None => self.name(),
        }
    }

    pub fn ded(&self) -> Option<&String> {
        match self {
            Instr::Member(m) => m.ded.as_ref(),
            Instr::Ghost { ded, .. }
            | Instr::Ghosts { ded, .. }
            | Instr::Child { ded, .. }
            | Instr::ChildParents { ded, .. }
            | Instr::Parent { ded, .. }
            | Instr::AsType { ded, .. }
            | Instr::Literal { ded, .. }
            | Instr::Pattern { ded, .. }
            | Instr::TypeHint { ded, .. }
            | Instr::Where { ded, .. } => ded.as_ref(),
            _ => None,
        }
    }
}

#[derive(Clone, Debug, PartialEq)]
pub enum Attr {
    /// One bare attribute `#[name(args)]` (instrs.len() == 1, wrapped == false) or `#[o2o(a(..), b(..))]`.
    O2o { instrs: Vec<Instr>, wrapped: bool },
    /// Arbitrary attribute text, without the `#[` `]`.
    Foreign(String),
}

impl Attr {
    pub fn bare(i: Instr) -> Attr {
        Attr::O2o { instrs: vec![i], wrapped: false }
    }
    pub fn wrapped(i: Vec<Instr>) -> Attr {
        Attr::O2o { instrs: i, wrapped: true }
    }
    /// Bare where a bare form exists, wrapped otherwise.
    pub fn auto(i: Instr) -> Attr {
        if has_bare_form(&i.name()) {
            Attr::bare(i)
        } else {
            Attr::wrapped(vec![i])
        }
    }
    pub fn render(&self) -> String {
        match self {
            Attr::O2o { instrs, wrapped: false } => format!("#[{}]", instrs[0].render()),
            Attr::O2o { instrs, wrapped: true } => format!("#[o2o({})]", instrs.iter().map(|i| i.render()).collect::<Vec<_>>().join(", ")),
            Attr::Foreign(t) => format!("#[{}]", t),
        }
    }
    pub fn instrs(&self) -> &[Instr] {
        match self {
            Attr::O2o { instrs, .. } => instrs,
            Attr::Foreign(_) => &[],
        }
    }
    pub fn instrs_mut(&mut self) -> Option<&mut Vec<Instr>> {
        match self {
            Attr::O2o { instrs, .. } => Some(instrs),
            Attr::Foreign(_) => None,
        }
    }
}

#[derive(Clone, Debug, PartialEq)]
pub struct FieldDef {
    pub attrs: Vec<Attr>,
    pub name: Option<String>,
    pub ty: String,
}

#[derive(Clone, Copy, Debug, PartialEq, Eq)]
pub enum Shape {
    Named,
    Tuple,
    Unit,
}

#[derive(Clone, Debug, PartialEq)]
pub struct VariantDef {
    pub attrs: Vec<Attr>,
    pub name: String,
    pub shape: Shape,
    pub fields: Vec<FieldDef>,
}

#[derive(Clone, Debug, PartialEq)]
pub enum Body {
    Struct(Shape, Vec<FieldDef>),
    Enum(Vec<VariantDef>),
    Union(Vec<FieldDef>),
}

#[derive(Clone, Debug, PartialEq)]
pub struct Item {
    pub attrs: Vec<Attr>,
    pub name: String,
    /// `<'a, T: Copy>` or empty
    pub generics: String,
    /// `where T: Default` or empty
    pub where_clause: String,
    pub body: Body,
}

fn render_fields(out: &mut String, shape: Shape, fields: &[FieldDef]) {
    match shape {
        Shape::Named => {
            out.push_str(" { ");
            for f in fields {
                for a in &f.attrs {
                    out.push_str(&a.render());
                    out.push(' ');
                }
                let _ = write!(out, "{}: {}, ", f.name.as_deref().unwrap_or("_anon"), f.ty);
            }
            out.push('}');
        }
        Shape::Tuple => {
            out.push('(');
            for f in fields {
                for a in &f.attrs {
                    out.push_str(&a.render());
                    out.push(' ');
                }
                let _ = write!(out, "{}, ", f.ty);
            }
            out.push(')');
        }
        Shape::Unit => {}
    }
}

impl Item {
    pub fn render(&self) -> String {
        let mut out = String::new();
        for a in &self.attrs {
            out.push_str(&a.render());
            out.push('\n');
        }
        match &self.body {
            Body::Struct(shape, fields) => {
                let _ = write!(out, "struct {}{}", self.name, self.generics);
                match shape {
                    Shape::Named => {
                        if !self.where_clause.is_empty() {
                            let _ = write!(out, " {}", self.where_clause);
                        }
                        render_fields(&mut out, *shape, fields);
                    }
                    Shape::Tuple => {
                        render_fields(&mut out, *shape, fields);
                        if !self.where_clause.is_empty() {
                            let _ = write!(out, " {}", self.where_clause);
                        }
                        out.push(';');
                    }
                    Shape::Unit => {
                        if !self.where_clause.is_empty() {
                            let _ = write!(out, " {}", self.where_clause);
                        }
                        out.push(';');
                    }
                }
            }
            Body::Enum(variants) => {
                let _ = write!(out, "enum {}{}", self.name, self.generics);
                if !self.where_clause.is_empty() {
                    let _ = write!(out, " {}", self.where_clause);
                }
                out.push_str(" { ");
                for v in variants {
                    for a in &v.attrs {
                        out.push_str(&a.render());
                        out.push(' ');
                    }
                    out.push_str(&v.name);
                    render_fields(&mut out, v.shape, &v.fields);
                    out.push_str(", ");
                }
                out.push('}');
            }
            Body::Union(fields) => {
                let _ = write!(out, "union {}{}", self.name, self.generics);
                render_fields(&mut out, Shape::Named, fields);
            }
        }
        out
    }

    pub fn is_enum(&self) -> bool {
        matches!(self.body, Body::Enum(_))
    }

    /// Visit every attribute list: type level first, then members in order (variant attrs before its fields).
    pub fn for_each_attr_list_mut(&mut self, f: &mut dyn FnMut(AttrSite, &mut Vec<Attr>)) {
        f(AttrSite::Type, &mut self.attrs);
        match &mut self.body {
            Body::Struct(_, fields) | Body::Union(fields) => {
                for (i, fd) in fields.iter_mut().enumerate() {
                    f(AttrSite::Field(i), &mut fd.attrs);
                }
            }
            Body::Enum(vs) => {
                for (vi, v) in vs.iter_mut().enumerate() {
                    f(AttrSite::Variant(vi), &mut v.attrs);
                    for (i, fd) in v.fields.iter_mut().enumerate() {
                        f(AttrSite::VariantField(vi, i), &mut fd.attrs);
                    }
                }
            }
        }
    }

    pub fn for_each_attr_list(&self, f: &mut dyn FnMut(AttrSite, &Vec<Attr>)) {
        f(AttrSite::Type, &self.attrs);
        match &self.body {
            Body::Struct(_, fields) | Body::Union(fields) => {
                for (i, fd) in fields.iter().enumerate() {
                    f(AttrSite::Field(i), &fd.attrs);
                }
            }
            Body::Enum(vs) => {
                for (vi, v) in vs.iter().enumerate() {
                    f(AttrSite::Variant(vi), &v.attrs);
                    for (i, fd) in v.fields.iter().enumerate() {
                        f(AttrSite::VariantField(vi, i), &fd.attrs);
                    }
                }
            }
        }
    }

    pub fn trait_instrs(&self) -> Vec<&TraitInstr> {
        self.attrs.iter().flat_map(|a| a.instrs()).filter_map(|i| if let Instr::Trait(t) = i { Some(t) } else { None }).collect()
    }

    pub fn count_instrs(&self) -> usize {
        let mut n = 0;
        self.for_each_attr_list(&mut |_, l| n += l.iter().map(|a| a.instrs().len()).sum::<usize>());
        n
    }
}

#[derive(Clone, Copy, Debug, PartialEq, Eq)]
pub enum AttrSite {
    Type,
    Field(usize),
    Variant(usize),
    VariantField(usize, usize),
}

impl AttrSite {
    pub fn is_member(self) -> bool {
        !matches!(self, AttrSite::Type)
    }
}
