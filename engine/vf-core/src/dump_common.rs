// Shared by dump-syn1 (this crate, o2o-impl feature "syn") and dump-syn2 (../dump-syn2, feature "syn2").
// Reads inputs separated by lines containing only `====` from the file given as argv[1] (or stdin),
// expands each with o2o_impl::expand::derive and prints one line per input:
//   OK <tokens> | ERR <msg>\x1f<msg>... | PANIC <msg> | NOITEM <msg>       (\ and newline escaped)

use std::io::Read;
use std::panic::{catch_unwind, AssertUnwindSafe};

fn esc(s: &str) -> String {
    s.replace('\\', "\\\\").replace('\n', "\\n").replace('\r', "\\r")
}

fn panic_msg(p: Box<dyn std::any::Any + Send>) -> String {
    if let Some(s) = p.downcast_ref::<&str>() {
        s.to_string()
    } else if let Some(s) = p.downcast_ref::<String>() {
        s.clone()
    } else {
        "<non-string panic>".into()
    }
}

pub fn main() {
    std::panic::set_hook(Box::new(|_| {}));
    let mut text = String::new();
    match std::env::args().nth(1) {
        Some(p) => text = std::fs::read_to_string(p).expect("read input file"),
        None => {
            std::io::stdin().read_to_string(&mut text).unwrap();
        }
    }
    let mut out = String::new();
    let mut cur = String::new();
    let mut flush = |cur: &mut String, out: &mut String| {
        let input = std::mem::take(cur);
        let line = match catch_unwind(AssertUnwindSafe(|| synx::parse_str::<synx::DeriveInput>(&input))) {
            Err(p) => format!("NOITEM parser panicked: {}", esc(&panic_msg(p))),
            Ok(Err(e)) => format!("NOITEM {}", esc(&e.to_string())),
            Ok(Ok(di)) => match catch_unwind(AssertUnwindSafe(|| o2o_impl::expand::derive(&di))) {
                Ok(Ok(ts)) => format!("OK {}", esc(&ts.to_string())),
                Ok(Err(e)) => format!("ERR {}", e.into_iter().map(|x| esc(&x.to_string())).collect::<Vec<_>>().join("\x1f")),
                Err(p) => format!("PANIC {}", esc(&panic_msg(p))),
            },
        };
        out.push_str(&line);
        out.push('\n');
    };
    for l in text.lines() {
        if l == "====" {
            flush(&mut cur, &mut out);
        } else {
            cur.push_str(l);
            cur.push('\n');
        }
    }
    if !cur.trim().is_empty() {
        flush(&mut cur, &mut out);
    }
    print!("{}", out);
}
