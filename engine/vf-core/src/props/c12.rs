//! C12 — shortcut instructions equal the basic instructions they abbreviate.

use crate::dsl::*;
use crate::gen::{gen_item, GenOpts};
use crate::props::util::*;
use crate::runner::{CaseReport, Ctx, Part, Tier, Verdict};
use crate::tape::Tape;
use serde_json::json;

pub struct Shortcuts {
    opts: GenOpts,
}

pub fn parts() -> Vec<Box<dyn Part>> {
    vec![Box::new(Shortcuts { opts: GenOpts { allow_repeat: false, allow_generics: true, ..GenOpts::default() } })]
}

/// README table: shortcut name -> the basic names it abbreviates (same fallibility).
pub fn basics_of(name: &str) -> Option<Vec<String>> {
    let (ks, f) = trait_name_cells(name)?;
    if ks.len() <= 1 {
        return None;
    }
    Some(ks.into_iter().map(|k| basic_name(k, f).to_string()).collect())
}

fn expand_parent_fields(fields: &mut Vec<ParentField>, n: &mut usize) {
    for f in fields.iter_mut() {
        let mut new_attrs = vec![];
        for (name, args) in f.attrs.drain(..) {
            match basics_of(&name) {
                Some(bs) => {
                    *n += 1;
                    for b in bs {
                        new_attrs.push((b, args.clone()));
                    }
                }
                None => new_attrs.push((name, args)),
            }
        }
        f.attrs = new_attrs;
        if let Some(nested) = &mut f.nested {
            expand_parent_fields(nested, n);
        }
    }
}

/// Rewrite every shortcut occurrence in place into its tabulated basic instructions with identical arguments.
pub fn expand_shortcuts(item: &Item) -> (Item, usize) {
    let mut out = item.clone();
    let mut n = 0;
    out.for_each_attr_list_mut(&mut |_, list| {
        let mut new_list: Vec<Attr> = vec![];
        for a in list.drain(..) {
            match a {
                Attr::O2o { instrs, wrapped } => {
                    let mut new_instrs: Vec<Instr> = vec![];
                    for i in instrs {
                        match i {
                            Instr::Trait(t) => match basics_of(&t.name) {
                                Some(bs) => {
                                    n += 1;
                                    for b in bs {
                                        new_instrs.push(Instr::Trait(TraitInstr { name: b, ..t.clone() }));
                                    }
                                }
                                None => new_instrs.push(Instr::Trait(t)),
                            },
                            Instr::Member(m) => match basics_of(&m.name) {
                                Some(bs) => {
                                    n += 1;
                                    for b in bs {
                                        new_instrs.push(Instr::Member(MemberInstr { name: b, ..m.clone() }));
                                    }
                                }
                                None => new_instrs.push(Instr::Member(m)),
                            },
                            Instr::Ghost { name, ded, action } if name == "ghost" => {
                                n += 1;
                                new_instrs.push(Instr::Ghost { name: "ghost_owned".into(), ded: ded.clone(), action: action.clone() });
                                new_instrs.push(Instr::Ghost { name: "ghost_ref".into(), ded, action });
                            }
                            Instr::Ghosts { name, ded, entries } if name == "ghosts" => {
                                n += 1;
                                new_instrs.push(Instr::Ghosts { name: "ghosts_owned".into(), ded: ded.clone(), entries: entries.clone() });
                                new_instrs.push(Instr::Ghosts { name: "ghosts_ref".into(), ded, entries });
                            }
                            Instr::Parent { ded, fields: Some(mut fs) } => {
                                expand_parent_fields(&mut fs, &mut n);
                                new_instrs.push(Instr::Parent { ded, fields: Some(fs) });
                            }
                            other => new_instrs.push(other),
                        }
                    }
                    if wrapped {
                        new_list.push(Attr::O2o { instrs: new_instrs, wrapped: true });
                    } else {
                        // a bare attribute that became several instructions: one attribute each (bare where possible)
                        for i in new_instrs {
                            new_list.push(Attr::auto(i));
                        }
                    }
                }
                other => new_list.push(other),
            }
        }
        *list = new_list;
    });
    (out, n)
}

impl Part for Shortcuts {
    fn name(&self) -> &'static str {
        "shortcuts"
    }
    fn prop(&self) -> &'static str {
        "C12"
    }
    fn rule(&self) -> String {
        "Valid-mode L1 inputs without repeat (structs and enums, several counterparts), with shortcuts at type level, member / variant level, inside #[parent([map(x)] f)], and ghost / ghosts. Oracle: expand_shortcuts rewrites every shortcut occurrence in place into the basic instructions the README tabulates for it, with identical arguments; both inputs must be accepted-or-rejected alike and, when accepted, give equal multisets of impl items. Non-trivial = >= 1 shortcut rewritten and the input accepted; distinct by input text.".into()
    }
    fn cases(&self, tier: Tier) -> usize {
        match tier {
            Tier::Quick => 72_000,
            Tier::Thorough => 1_200_000,
        }
    }
    fn max_tape(&self) -> usize {
        320
    }
    fn run_case(&self, tape: &[u16], ctx: &Ctx) -> CaseReport {
        let mut t = Tape::new(tape);
        let (item, mut labels) = gen_item(&mut t, &self.opts);
        let text = item.render();
        let (exp, n) = expand_shortcuts(&item);
        let etext = exp.render();
        labels.push(format!("shortcuts-rewritten:{}", n.min(9)));
        let a = expand_items(&text);
        let b = expand_items(&etext);
        let detail = |why: &str| json!({"input": text, "written_out": etext, "why": why});
        let sig_for = |item: &Item| -> Option<&'static str> {
            if item.is_enum() && text.contains("ghost") {
                Some("enum-ghosts-ignore-owned-ref")
            } else {
                None
            }
        };
        let (nontrivial, verdict) = match (&a, &b) {
            (Exp::Ok { items: ia, .. }, Exp::Ok { items: ib, .. }) => {
                labels.push("accepted".into());
                match multiset_diff(&item_multiset(ia), &item_multiset(ib)) {
                    None => (n > 0, Verdict::Pass),
                    Some((oa, ob)) => (n > 0, ctx.fail_or_known("C12", sig_for(&item), "shortcut form and written-out basic form generate different impls".into(), json!({"input": text, "written_out": etext, "only_shortcut_form": oa, "only_written_out": ob}))),
                }
            }
            (Exp::Other(oa), Exp::Other(ob)) => {
                labels.push(format!("both:{}", oa.kind()));
                if oa.kind() == ob.kind() {
                    (false, Verdict::Pass)
                } else {
                    (false, ctx.fail_or_known("C12", Some("panic-is-C16"), format!("shortcut form: {}; written-out form: {}", oa.short(), ob.short()), detail("outcome kinds differ")))
                }
            }
            (Exp::Unsplittable(_), Exp::Unsplittable(_)) => (false, Verdict::Pass),
            (x, y) => {
                let k = |e: &Exp| match e {
                    Exp::Ok { .. } => "accepted".to_string(),
                    Exp::Other(o) => o.short(),
                    Exp::Unsplittable(_) => "accepted (unsplittable)".to_string(),
                };
                let panic = matches!(x, Exp::Other(crate::xp::Outcome::Panic(_))) || matches!(y, Exp::Other(crate::xp::Outcome::Panic(_)));
                (n > 0, ctx.fail_or_known("C12", if panic { Some("panic-is-C16") } else { None }, format!("shortcut form is {}, written-out basic form is {}", k(x), k(y)), detail("verdicts differ")))
            }
        };
        CaseReport { key: text, nontrivial, labels, verdict }
    }
}
