//! C12 — shortcut instructions equal the basic instructions they abbreviate.

use crate::dsl::*;
use crate::gen::{gen_item, GenOpts};
use crate::props::util::*;
use crate::runner::{CaseReport, Ctx, Part, Tier, Verdict};
use crate::tape::Tape;
use serde_json::json;

pub struct Shortcuts {
    opts: GenOpts,
}

pub fn parts() -> Vec<Box<dyn Part>> {
    vec![Box::new(Shortcuts { opts: GenOpts { allow_repeat: false, allow_generics: true, ..GenOpts::default() } }), Box::new(ShortcutsLattice)]
}

/// Part `shortcuts-lattice` (seeded change C12-10): the same rewrite, at token level, over the instruction-selection lattice of
/// C16 / C17, most of whose inputs are *rejected* - a shortcut and its written-out basics must also be rejected alike.
pub struct ShortcutsLattice;

fn basics_any(name: &str) -> Option<Vec<String>> {
    match name {
        "ghost" => Some(vec!["ghost_owned".into(), "ghost_ref".into()]),
        "ghosts" => Some(vec!["ghosts_owned".into(), "ghosts_ref".into()]),
        n => basics_of(n),
    }
}

/// `[name]` / `[name(args)]` -> one bracket content per basic instruction (None: not a shortcut, left as it is).
fn split_attr(g: &proc_macro2::Group, n: &mut usize) -> Option<Vec<proc_macro2::TokenStream>> {
    use proc_macro2::{Delimiter, TokenStream, TokenTree};
    let toks: Vec<TokenTree> = g.stream().into_iter().collect();
    let (name, args) = match toks.as_slice() {
        [TokenTree::Ident(i)] => (i.clone(), None),
        [TokenTree::Ident(i), TokenTree::Group(a)] if a.delimiter() == Delimiter::Parenthesis => (i.clone(), Some(a.clone())),
        _ => return None,
    };
    if name == "parent" {
        let a = args?;
        let before = *n;
        let inner = rewrite_tokens(a.stream(), n, true);
        if *n == before {
            return None;
        }
        let mut ts = TokenStream::new();
        ts.extend([TokenTree::Ident(name), TokenTree::Group(proc_macro2::Group::new(Delimiter::Parenthesis, inner))]);
        return Some(vec![ts]);
    }
    let bs = basics_any(&name.to_string())?;
    *n += 1;
    Some(
        bs.into_iter()
            .map(|b| {
                let mut ts = TokenStream::new();
                ts.extend([TokenTree::Ident(proc_macro2::Ident::new(&b, name.span()))]);
                if let Some(a) = &args {
                    ts.extend([TokenTree::Group(a.clone())]);
                }
                ts
            })
            .collect(),
    )
}

/// Rewrite every `#[shortcut(..)]` attribute (and every `[shortcut(..)]` inside the arguments of a `#[parent(..)]`) in a token stream.
pub fn rewrite_tokens(ts: proc_macro2::TokenStream, n: &mut usize, in_parent: bool) -> proc_macro2::TokenStream {
    use proc_macro2::{Delimiter, Group, TokenStream, TokenTree};
    let toks: Vec<TokenTree> = ts.into_iter().collect();
    let mut out: Vec<TokenTree> = vec![];
    let mut i = 0;
    while i < toks.len() {
        match &toks[i] {
            TokenTree::Punct(p) if p.as_char() == '#' && i + 1 < toks.len() && matches!(&toks[i + 1], TokenTree::Group(g) if g.delimiter() == Delimiter::Bracket) => {
                if let TokenTree::Group(g) = &toks[i + 1] {
                    match split_attr(g, n) {
                        Some(list) => {
                            for a in list {
                                out.push(toks[i].clone());
                                out.push(TokenTree::Group(Group::new(Delimiter::Bracket, a)));
                            }
                        }
                        None => {
                            out.push(toks[i].clone());
                            out.push(toks[i + 1].clone());
                        }
                    }
                }
                i += 2;
            }
            TokenTree::Group(g) if in_parent && g.delimiter() == Delimiter::Bracket => {
                match split_attr(g, n) {
                    Some(list) => {
                        for a in list {
                            out.push(TokenTree::Group(Group::new(Delimiter::Bracket, a)));
                        }
                    }
                    None => out.push(toks[i].clone()),
                }
                i += 1;
            }
            TokenTree::Group(g) => {
                out.push(TokenTree::Group(Group::new(g.delimiter(), rewrite_tokens(g.stream(), n, in_parent))));
                i += 1;
            }
            other => {
                out.push(other.clone());
                i += 1;
            }
        }
    }
    let mut r = TokenStream::new();
    r.extend(out);
    r
}

impl Part for ShortcutsLattice {
    fn name(&self) -> &'static str {
        "shortcuts-lattice"
    }
    fn prop(&self) -> &'static str {
        "C12"
    }
    fn rule(&self) -> String {
        "The instruction-selection lattice of C16 (1-2 trait instructions of any spelling and hint, members with 0-3 instructions incl. ghost / child / parent / as_type, struct- and variant-level ghosts of every entry form; mostly *rejected* inputs, no trait-level repeat()). Oracle: a token-level rewrite replaces every #[shortcut(args)] attribute (trait level, member level, ghost, ghosts, and [shortcut(..)] inside #[parent(..)]) by one attribute per basic instruction the README tabulates, same arguments; the two inputs must be accepted or rejected alike and, when accepted, give equal multisets of impl items (diagnostic texts are not compared). Non-trivial = >= 1 shortcut rewritten; distinct by input text.".into()
    }
    fn cases(&self, tier: Tier) -> usize {
        match tier {
            Tier::Quick => 72_000,
            Tier::Thorough => 1_200_000,
        }
    }
    fn max_tape(&self) -> usize {
        160
    }
    fn run_case(&self, tape: &[u16], ctx: &Ctx) -> CaseReport {
        let mut t = Tape::new(tape);
        let (text, mut labels) = crate::props::c16::gen_lattice(&mut t);
        let ts: proc_macro2::TokenStream = match text.parse() {
            Ok(ts) => ts,
            Err(_) => return CaseReport { key: text, nontrivial: false, labels, verdict: Verdict::Discard("input does not lex".into()) },
        };
        let mut n = 0;
        let etext = rewrite_tokens(ts, &mut n, false).to_string();
        labels.push(format!("shortcuts-rewritten:{}", n.min(9)));
        if n == 0 {
            return CaseReport { key: text, nontrivial: false, labels, verdict: Verdict::Pass };
        }
        let a = expand_items(&text);
        let b = expand_items(&etext);
        let detail = |why: &str| json!({"input": text, "written_out": etext, "why": why});
        let verdict = match (&a, &b) {
            (Exp::Ok { items: ia, .. }, Exp::Ok { items: ib, .. }) => {
                labels.push("accepted".into());
                match multiset_diff(&item_multiset(ia), &item_multiset(ib)) {
                    None => Verdict::Pass,
                    Some((oa, ob)) => ctx.fail_or_known("C12", None, "shortcut form and written-out basic form generate different impls".into(), json!({"input": text, "written_out": etext, "only_shortcut_form": oa, "only_written_out": ob})),
                }
            }
            (Exp::Other(oa), Exp::Other(ob)) => {
                labels.push(format!("both:{}", oa.kind()));
                if oa.kind() == ob.kind() {
                    Verdict::Pass
                } else {
                    ctx.fail_or_known("C12", Some("panic-is-C16"), format!("shortcut form: {}; written-out form: {}", oa.short(), ob.short()), detail("outcome kinds differ"))
                }
            }
            (Exp::Unsplittable(_), Exp::Unsplittable(_)) => Verdict::Pass,
            (x, y) => {
                let k = |e: &Exp| match e {
                    Exp::Ok { .. } => "accepted".to_string(),
                    Exp::Other(o) => o.short(),
                    Exp::Unsplittable(_) => "accepted (unsplittable)".to_string(),
                };
                let panic = matches!(x, Exp::Other(crate::xp::Outcome::Panic(_))) || matches!(y, Exp::Other(crate::xp::Outcome::Panic(_)));
                ctx.fail_or_known("C12", if panic { Some("panic-is-C16") } else { None }, format!("shortcut form is {}, written-out basic form is {}", k(x), k(y)), detail("verdicts differ"))
            }
        };
        CaseReport { key: text, nontrivial: true, labels, verdict }
    }
}

/// README table: shortcut name -> the basic names it abbreviates (same fallibility).
pub fn basics_of(name: &str) -> Option<Vec<String>> {
    let (ks, f) = trait_name_cells(name)?;
    if ks.len() <= 1 {
        return None;
    }
    Some(ks.into_iter().map(|k| basic_name(k, f).to_string()).collect())
}

fn expand_parent_fields(fields: &mut Vec<ParentField>, n: &mut usize) {
    for f in fields.iter_mut() {
        let mut new_attrs = vec![];
        for (name, args) in f.attrs.drain(..) {
            match basics_of(&name) {
                Some(bs) => {
                    *n += 1;
                    for b in bs {
                        new_attrs.push((b, args.clone()));
                    }
                }
                None => new_attrs.push((name, args)),
            }
        }
        f.attrs = new_attrs;
        if let Some(nested) = &mut f.nested {
            expand_parent_fields(nested, n);
        }
    }
}

/// Rewrite every shortcut occurrence in place into its tabulated basic instructions with identical arguments.
pub fn expand_shortcuts(item: &Item) -> (Item, usize) {
    let mut out = item.clone();
    let mut n = 0;
    out.for_each_attr_list_mut(&mut |_, list| {
        let mut new_list: Vec<Attr> = vec![];
        for a in list.drain(..) {
            match a {
                Attr::O2o { instrs, wrapped } => {
                    let mut new_instrs: Vec<Instr> = vec![];
                    for i in instrs {
                        match i {
                            Instr::Trait(t) => match basics_of(&t.name) {
                                Some(bs) => {
                                    n += 1;
                                    for b in bs {
                                        new_instrs.push(Instr::Trait(TraitInstr { name: b, ..t.clone() }));
                                    }
                                }
                                None => new_instrs.push(Instr::Trait(t)),
                            },
                            Instr::Member(m) => match basics_of(&m.name) {
                                Some(bs) => {
                                    n += 1;
                                    for b in bs {
                                        new_instrs.push(Instr::Member(MemberInstr { name: b, ..m.clone() }));
                                    }
                                }
                                None => new_instrs.push(Instr::Member(m)),
                            },
                            Instr::Ghost { name, ded, action } if name == "ghost" => {
                                n += 1;
                                new_instrs.push(Instr::Ghost { name: "ghost_owned".into(), ded: ded.clone(), action: action.clone() });
                                new_instrs.push(Instr::Ghost { name: "ghost_ref".into(), ded, action });
                            }
                            Instr::Ghosts { name, ded, entries } if name == "ghosts" => {
                                n += 1;
                                new_instrs.push(Instr::Ghosts { name: "ghosts_owned".into(), ded: ded.clone(), entries: entries.clone() });
                                new_instrs.push(Instr::Ghosts { name: "ghosts_ref".into(), ded, entries });
                            }
                            Instr::Parent { ded, fields: Some(mut fs) } => {
                                expand_parent_fields(&mut fs, &mut n);
                                new_instrs.push(Instr::Parent { ded, fields: Some(fs) });
                            }
                            other => new_instrs.push(other),
                        }
                    }
                    if wrapped {
                        new_list.push(Attr::O2o { instrs: new_instrs, wrapped: true });
                    } else {
                        // a bare attribute that became several instructions: one attribute each (bare where possible)
                        for i in new_instrs {
                            new_list.push(Attr::auto(i));
                        }
                    }
                }
                other => new_list.push(other),
            }
        }
        *list = new_list;
    });
    (out, n)
}

impl Part for Shortcuts {
    fn name(&self) -> &'static str {
        "shortcuts"
    }
    fn prop(&self) -> &'static str {
        "C12"
    }
    fn rule(&self) -> String {
        "Valid-mode L1 inputs without repeat (structs and enums, several counterparts), with shortcuts at type level, member / variant level, inside #[parent([map(x)] f)], and ghost / ghosts. Oracle: expand_shortcuts rewrites every shortcut occurrence in place into the basic instructions the README tabulates for it, with identical arguments; both inputs must be accepted-or-rejected alike and, when accepted, give equal multisets of impl items. Non-trivial = >= 1 shortcut rewritten and the input accepted; distinct by input text.".into()
    }
    fn cases(&self, tier: Tier) -> usize {
        match tier {
            Tier::Quick => 72_000,
            Tier::Thorough => 1_200_000,
        }
    }
    fn max_tape(&self) -> usize {
        320
    }
    fn run_case(&self, tape: &[u16], ctx: &Ctx) -> CaseReport {
        let mut t = Tape::new(tape);
        let (item, mut labels) = gen_item(&mut t, &self.opts);
        let text = item.render();
        let (exp, n) = expand_shortcuts(&item);
        let etext = exp.render();
        labels.push(format!("shortcuts-rewritten:{}", n.min(9)));
        let a = expand_items(&text);
        let b = expand_items(&etext);
        let detail = |why: &str| json!({"input": text, "written_out": etext, "why": why});
        let sig_for = |item: &Item| -> Option<&'static str> {
            if item.is_enum() && text.contains("ghost") {
                Some("enum-ghosts-ignore-owned-ref")
            } else {
                None
            }
        };
        let (nontrivial, verdict) = match (&a, &b) {
            (Exp::Ok { items: ia, .. }, Exp::Ok { items: ib, .. }) => {
                labels.push("accepted".into());
                match multiset_diff(&item_multiset(ia), &item_multiset(ib)) {
                    None => (n > 0, Verdict::Pass),
                    Some((oa, ob)) => (n > 0, ctx.fail_or_known("C12", sig_for(&item), "shortcut form and written-out basic form generate different impls".into(), json!({"input": text, "written_out": etext, "only_shortcut_form": oa, "only_written_out": ob}))),
                }
            }
            (Exp::Other(oa), Exp::Other(ob)) => {
                labels.push(format!("both:{}", oa.kind()));
                if oa.kind() == ob.kind() {
                    (false, Verdict::Pass)
                } else {
                    (false, ctx.fail_or_known("C12", Some("panic-is-C16"), format!("shortcut form: {}; written-out form: {}", oa.short(), ob.short()), detail("outcome kinds differ")))
                }
            }
            (Exp::Unsplittable(_), Exp::Unsplittable(_)) => (false, Verdict::Pass),
            (x, y) => {
                let k = |e: &Exp| match e {
                    Exp::Ok { .. } => "accepted".to_string(),
                    Exp::Other(o) => o.short(),
                    Exp::Unsplittable(_) => "accepted (unsplittable)".to_string(),
                };
                let panic = matches!(x, Exp::Other(crate::xp::Outcome::Panic(_))) || matches!(y, Exp::Other(crate::xp::Outcome::Panic(_)));
                (n > 0, ctx.fail_or_known("C12", if panic { Some("panic-is-C16") } else { None }, format!("shortcut form is {}, written-out basic form is {}", k(x), k(y)), detail("verdicts differ")))
            }
        };
        CaseReport { key: text, nontrivial, labels, verdict }
    }
}
