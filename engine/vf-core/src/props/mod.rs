//! Property registry.
use crate::evidence::CheckResult;
use crate::known::Known;
use crate::runner::{run_part, Part, Tier};

pub mod c01;
pub mod c02;
pub mod c03;
pub mod c04;
pub mod c05;
pub mod c06;
pub mod c07;
pub mod c08;
pub mod c09;
pub mod c10;
pub mod c11;
pub mod c12;
pub mod c13;
pub mod c14;
pub mod c15;
pub mod c20;
pub mod util;
pub mod c16;
pub mod c17;
pub mod c18;
pub mod c19;

/// All generated-search parts of a property (E1 parts; E2/X parts are driven by the property's own `check`).
pub fn parts(prop: &str) -> Vec<Box<dyn Part>> {
    match prop {
        "C04" => c04::parts(),
        "C05" => c05::parts(),
        "C06" => c06::parts(),
        "C08" => c08::parts(),
        "C10" => c10::parts(),
        "C12" => c12::parts(),
        "C13" => c13::parts(),
        "C14" => c14::parts(),
        "C15" => c15::parts(),
        "C16" => c16::parts(),
        "C17" => c17::parts(),
        "C19" => c19::parts(),
        "C20" => c20::parts(),
        _ => vec![],
    }
}

pub const ALL: [&str; 20] = ["C01", "C02", "C03", "C04", "C05", "C06", "C07", "C08", "C09", "C10", "C11", "C12", "C13", "C14", "C15", "C16", "C17", "C18", "C19", "C20"];

pub fn assumptions(prop: &str) -> Vec<String> {
    let mut v = vec![
        "o2o_impl::expand::derive (pub) called in-process on syn::parse_str input is the behaviour of the proc-macro (o2o-macros only adds parse_macro_input + to_compile_error)".to_string(),
        "proc-macro2 fallback (non-compiler) token streams print the same tokens the compiler would receive".to_string(),
    ];
    match prop {
        "C17" => v.push("syn 2 (feature full) parse_str::<File> is the arbiter of syntactic validity".into()),
        _ => {}
    }
    v
}

/// Compile-and-run parts (E2).
pub fn e2_parts(prop: &str) -> Vec<Box<dyn crate::e2::E2Part>> {
    match prop {
        "C01" => c01::e2_parts(),
        "C02" => c02::e2_parts(),
        "C03" => c03::e2_parts(),
        "C07" => c07::e2_parts(),
        "C08" => c08::e2_parts(),
        "C09" => c09::e2_parts(),
        "C11" => c11::e2_parts(),
        "C20" => c20::e2_parts(),
        _ => vec![],
    }
}

pub fn check(prop: &str, tier: Tier, seed: u64, known: &Known) -> CheckResult {
    let mut res = CheckResult { prop: prop.to_string(), parts: vec![], assumptions: assumptions(prop), known_lines: vec![], inconclusive: None };
    for p in parts(prop) {
        res.parts.push(run_part(p.as_ref(), tier, seed, known));
    }
    for p in e2_parts(prop) {
        match crate::e2::run_e2_part(p.as_ref(), tier, seed, known) {
            Ok(st) => res.parts.push(st),
            Err(e) => res.inconclusive = Some(e),
        }
    }
    // thorough tier: coverage-guided campaigns with the same oracles (E3)
    if tier == Tier::Thorough && std::env::var("VF_NO_FUZZ").is_err() {
        let campaigns: Vec<(&'static str, &str, u64)> = match prop {
            // ~550 executions / s per libFuzzer process (the oracle expands, parses and judges inside the target): 8 workers
            "C16" => vec![("C16", "tape", 1_200_000), ("C16", "text", 600_000)],
            "C17" => vec![("C17", "tape", 800_000)],
            "C19" => vec![("C19", "tape", 400_000), ("C19", "text", 400_000)],
            _ => vec![],
        };
        for (p, target, runs) in campaigns {
            let runs = std::env::var("VF_FUZZ_RUNS").ok().and_then(|x| x.parse().ok()).unwrap_or(runs);
            match crate::fuzzing::run_campaign(p, target, runs, seed) {
                Ok(st) => res.parts.push(st),
                Err(e) => res.inconclusive = Some(e),
            }
        }
    }
    // e2e mini-tier through the real proc-macro
    let e2e: Option<Result<crate::runner::PartStats, String>> = match prop {
        "C04" => Some(crate::e2e::c04_registration(seed)),
        "C15" => Some(crate::e2e::faults_through_real_derive("C15", seed, if tier == Tier::Quick { 40 } else { 400 }, known)),
        "C16" => Some(crate::e2e::faults_through_real_derive("C16", seed, if tier == Tier::Quick { 40 } else { 400 }, known)),
        _ => None,
    };
    match e2e {
        Some(Ok(st)) => res.parts.push(st),
        Some(Err(e)) => res.inconclusive = Some(e),
        None => {}
    }
    match prop {
        "C18" => c18::run(&mut res, tier, seed, known),
        "C19" => c19::extra_parts(&mut res, tier, seed, known),
        _ => {}
    }
    res
}

/// Re-run a replay file (or a canonical known-finding input). Returns Some(message) when the property fails on it.
pub fn replay_file(prop: &str, file: &str, known: &Known, strict: bool) -> Result<Option<String>, String> {
    let text = std::fs::read_to_string(file).map_err(|e| format!("{}: {}", file, e))?;
    let v: serde_json::Value = serde_json::from_str(&text).map_err(|e| e.to_string())?;
    let part = v["part"].as_str().ok_or("replay file has no part")?;
    let tape: Vec<u16> = v["tape"].as_array().ok_or("replay file has no tape")?.iter().map(|x| x.as_u64().unwrap_or(0) as u16).collect();
    let ctx = crate::runner::Ctx { known, strict };
    for p in parts(prop) {
        if p.name() == part {
            let rep = match v["case"].as_str().and_then(|c| p.run_text(c, &ctx)) {
                Some(r) => r,
                None => p.run_case(&tape, &ctx),
            };
            return Ok(match rep.verdict {
                crate::runner::Verdict::Fail { msg, .. } => Some(msg),
                _ => None,
            });
        }
    }
    for p in e2_parts(prop) {
        if p.name() == part {
            return crate::e2::replay_e2(p.as_ref(), &tape, known, strict);
        }
    }
    // cross-process parts: the stored input text wins over the tape (the tape only reproduces it with the generator it was drawn from)
    let stored = v["detail"]["input"].as_str().or_else(|| v["case"].as_str()).map(|s| s.lines().filter(|l| !l.starts_with("// outcome:")).collect::<Vec<_>>().join("\n"));
    replay_special(prop, part, &tape, stored.as_deref(), known, strict)
}

/// Parts that are not E1 parts (cross-process, compile-and-run) replay through their own entry points.
fn replay_special(prop: &str, part: &str, tape: &[u16], stored: Option<&str>, known: &Known, strict: bool) -> Result<Option<String>, String> {
    match (prop, part) {
        ("C19", "cross-process") => c19::replay_cross(tape, stored, known, strict),
        ("C18", "backend-diff") => c18::replay(tape, stored, known),
        _ => Err(format!("no part {} in {}", part, prop)),
    }
}

/// For every open known finding of `prop`: replay its canonical input strictly and emit the KNOWN-FINDING line if it still fails.
pub fn report_known(prop: &str, known: &Known) -> Vec<String> {
    let mut lines = vec![];
    for e in known.for_prop(prop) {
        let file = format!("{}/known/{}-{}.json", crate::verif_root(), prop, crate::runner::safe_sig(&e.sig));
        match replay_file(prop, &file, known, true) {
            Ok(Some(_)) => lines.push(format!("KNOWN-FINDING: property={} sig={} {}", prop, e.sig, e.desc)),
            Ok(None) => lines.push(format!("note: known finding {} of {} no longer reproduces on its canonical input ({})", e.sig, prop, file)),
            Err(err) => lines.push(format!("note: cannot replay canonical input of known finding {} of {}: {}", e.sig, prop, err)),
        }
    }
    lines
}
