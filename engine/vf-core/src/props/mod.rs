//! Property registry.
use crate::evidence::CheckResult;
use crate::known::Known;
use crate::runner::{run_part, Part, Tier};

pub mod c01;
pub mod c02;
pub mod c03;
pub mod c04;
pub mod c05;
pub mod c06;
pub mod c07;
pub mod c08;
pub mod c09;
pub mod c10;
pub mod c11;
pub mod c12;
pub mod c13;
pub mod c14;
pub mod c15;
pub mod c20;
pub mod util;
pub mod c16;
pub mod c17;
pub mod c18;
pub mod c19;

/// All generated-search parts of a property (E1 parts; E2/X parts are driven by the property's own `check`).
pub fn parts(prop: &str) -> Vec<Box<dyn Part>> {
    match prop {
        "C04" => c04::parts(),
        "C05" => c05::parts(),
        "C06" => c06::parts(),
        "C08" => c08::parts(),
        "C10" => c10::parts(),
        "C12" => c12::parts(),
        "C13" => c13::parts(),
        "C14" => c14::parts(),
        "C15" => c15::parts(),
        "C16" => c16::parts(),
        "C17" => c17::parts(),
        "C19" => c19::parts(),
        "C20" => c20::parts(),
        _ => vec![],
    }
}

pub const ALL: [&str; 20] = ["C01", "C02", "C03", "C04", "C05", "C06", "C07", "C08", "C09", "C10", "C11", "C12", "C13", "C14", "C15", "C16", "C17", "C18", "C19", "C20"];

pub fn assumptions(prop: &str) -> Vec<String> {
    let mut v = vec![
        "o2o_impl::expand::derive (pub) called in-process on syn::parse_str input is the behaviour of the proc-macro (o2o-macros only adds parse_macro_input + to_compile_error)".to_string(),
        "proc-macro2 fallback (non-compiler) token streams print the same tokens the compiler would receive".to_string(),
    ];
    match prop {
        "C17" => v.push("syn 2 (feature full) parse_str::<File> is the arbiter of syntactic validity".into()),
        _ => {}
    }
    v
}

/// Compile-and-run parts (E2).
pub fn e2_parts(prop: &str) -> Vec<Box<dyn crate::e2::E2Part>> {
    match prop {
        "C01" => c01::e2_parts(),
        "C02" => c02::e2_parts(),
        "C03" => c03::e2_parts(),
        "C07" => c07::e2_parts(),
        "C08" => c08::e2_parts(),
        "C09" => c09::e2_parts(),
        "C11" => c11::e2_parts(),
        "C20" => c20::e2_parts(),
        _ => vec![],
    }
}

pub fn check(prop: &str, tier: Tier, seed: u64, known: &Known) -> CheckResult {
    let mut res = CheckResult { prop: prop.to_string(), parts: vec![], assumptions: assumptions(prop), known_lines: vec![], inconclusive: None };
    for p in parts(prop) {
        res.parts.push(run_part(p.as_ref(), tier, seed, known));
    }
    for p in e2_parts(prop) {
        match crate::e2::run_e2_part(p.as_ref(), tier, seed, known) {
            Ok(st) => res.parts.push(st),
            Err(e) => res.inconclusive = Some(e),
        }
    }
    // thorough tier: coverage-guided campaigns with the same oracles (E3)
    if tier == Tier::Thorough && std::env::var("VF_NO_FUZZ").is_err() {
        let campaigns: Vec<(&'static str, &str, u64)> = match prop {
            // ~550 executions / s per libFuzzer process (the oracle expands, parses and judges inside the target): 8 workers
            "C16" => vec![("C16", "tape", 1_200_000), ("C16", "text", 600_000)],
            "C17" => vec![("C17", "tape", 800_000)],
            "C19" => vec![("C19", "tape", 400_000), ("C19", "text", 400_000)],
            _ => vec![],
        };
        for (p, target, runs) in campaigns {
            let runs = std::env::var("VF_FUZZ_RUNS").ok().and_then(|x| x.parse().ok()).unwrap_or(runs);
            match crate::fuzzing::run_campaign(p, target, runs, seed) {
                Ok(st) => res.parts.push(st),
                Err(e) => res.inconclusive = Some(e),
            }
        }
    }
    // e2e mini-tier through the real proc-macro
    let e2e: Option<Result<crate::runner::PartStats, String>> = match prop {
        "C04" => Some(crate::e2e::c04_registration(seed)),
        "C15" => Some(crate::e2e::faults_through_real_derive("C15", seed, if tier == Tier::Quick { 40 } else { 400 }, known)),
        "C16" => Some(crate::e2e::faults_through_real_derive("C16", seed, if tier == Tier::Quick { 40 } else { 400 }, known)),
        _ => None,
    };
    match e2e {
        Some(Ok(st)) => res.parts.push(st),
        Some(Err(e)) => res.inconclusive = Some(e),
        None => {}
    }
    match prop {
        "C18" => c18::run(&mut res, tier, seed, known),
        "C19" => c19::extra_parts(&mut res, tier, seed, known),
        _ => {}
    }
    // replay tier: saved inputs of repaired defects (regress/<ID>-*.json), strictly, bypassing the generators
    if let Some(st) = regress_part(prop, known) {
        res.parts.push(st);
    }
    res
}

/// Text-only replay of the metamorphic / table oracles. `None` = this (property, part, detail) has no such form.
fn relation_replay(prop: &str, part: &str, d: &serde_json::Value) -> Option<Option<String>> {
    use crate::xp::{expand, Outcome};
    let items_of = |o: &Outcome| -> Option<Vec<String>> {
        match o {
            Outcome::Ok(ts) => {
                let t: proc_macro2::TokenStream = ts.parse().ok()?;
                let mut v: Vec<String> = crate::items::split_items(&t).ok()?.into_iter().map(|i| i.text).collect();
                v.sort();
                Some(v)
            }
            _ => None,
        }
    };
    let same = |a: &Outcome, b: &Outcome| -> bool {
        match (a, b) {
            (Outcome::Ok(_), Outcome::Ok(_)) => items_of(a) == items_of(b),
            (Outcome::Err(x), Outcome::Err(y)) => {
                let (mut x, mut y) = (x.clone(), y.clone());
                x.sort();
                y.sort();
                x == y
            }
            _ => false,
        }
    };
    match (prop, part) {
        // repeat form vs written-out form; shortcut form vs basic instructions
        ("C14", _) | ("C12", _) => {
            let (a, b) = (d["input"].as_str()?, d["written_out"].as_str()?);
            let (ra, rb) = (expand(a), expand(b));
            Some(if same(&ra, &rb) { None } else { Some(format!("the two forms expand differently: {} vs {}", ra.short(), rb.short())) })
        }
        // two spellings of the same instructions
        ("C13", _) => {
            let (a, b) = (d["a_input"].as_str()?, d["b_input"].as_str()?);
            let (ra, rb) = (expand(a), expand(b));
            Some(if same(&ra, &rb) { None } else { Some(format!("the two spellings expand differently: {} vs {}", ra.short(), rb.short())) })
        }
        // impls for one counterpart with and without the instructions of the others
        ("C06", _) => {
            let (a, b, cp) = (d["input"].as_str()?, d["projected"].as_str()?, d["counterpart"].as_str()?);
            let pick = |o: &Outcome| -> Option<Vec<String>> {
                match o {
                    Outcome::Ok(ts) => {
                        let t: proc_macro2::TokenStream = ts.parse().ok()?;
                        let mut v: Vec<String> = crate::items::split_items(&t).ok()?.into_iter().filter(|i| i.key().map_or(false, |k| crate::items::nospace(&k.counterpart) == crate::items::nospace(cp))).map(|i| i.text).collect();
                        v.sort();
                        Some(v)
                    }
                    _ => None,
                }
            };
            let (ra, rb) = (expand(a), expand(b));
            Some(match (pick(&ra), pick(&rb)) {
                (Some(x), Some(y)) if x == y => None,
                _ => Some(format!("impls for {} depend on the other counterparts' instructions: {} vs {}", cp, ra.short(), rb.short())),
            })
        }
        // documented misuse: every expected message is reported
        ("C15", "faults") => {
            let input = d["input"].as_str()?;
            let expected: Vec<String> = d["expected"].as_array()?.iter().flat_map(|e| e["messages"].as_array().cloned().unwrap_or_default()).filter_map(|m| m.as_str().map(|s| s.to_string())).collect();
            Some(match expand(input) {
                Outcome::Err(msgs) if expected.iter().all(|e| msgs.iter().any(|m| m.contains(e.as_str()))) => None,
                Outcome::Ok(_) if expected.is_empty() => None,
                o => Some(format!("expected diagnostics {:?}, got {}", expected, o.short())),
            })
        }
        // determinism in one process
        ("C19", "in-process") => {
            let input = d["input"].as_str()?;
            let a = expand(input);
            Some(if (0..4).all(|_| expand(input) == a) { None } else { Some("the same input expanded differently".into()) })
        }
        _ => None,
    }
}

fn regress_part(prop: &str, known: &Known) -> Option<crate::runner::PartStats> {
    let dir = format!("{}/regress", crate::verif_root());
    let mut files: Vec<String> = std::fs::read_dir(&dir).ok()?.filter_map(|e| e.ok()).map(|e| e.file_name().to_string_lossy().to_string()).filter(|n| n.starts_with(&format!("{}-", prop)) && n.ends_with(".json")).collect();
    if files.is_empty() {
        return None;
    }
    files.sort();
    let mut st = crate::runner::PartStats { name: "regress".into(), ..Default::default() };
    st.rule = "Replay tier: every saved input of a defect that was repaired in /repo (regress/<ID>-*.json: shrunk failing inputs as found by the generated parts or by libFuzzer, stored as text) is run again through the property's oracle, strictly (no known finding is tolerated) and without any generator. Non-trivial = every file.".into();
    for f in files {
        let path = format!("{}/{}", dir, f);
        st.evaluations += 1;
        st.nontrivial_total += 1;
        st.distinct_nontrivial += 1;
        st.distinct_total += 1;
        match replay_file(prop, &path, known, true) {
            Ok(None) => {
                if st.samples.len() < 6 {
                    st.samples.push(serde_json::json!({"file": f}));
                }
            }
            Ok(Some(msg)) => st.violations.push(crate::runner::Violation { replay: path, msg: format!("a repaired defect is back: {}", msg) }),
            Err(e) => {
                st.discards += 1;
                *st.discard_reasons.entry(format!("cannot replay: {}", e.chars().take(60).collect::<String>())).or_default() += 1;
            }
        }
    }
    Some(st)
}

/// Re-run a replay file (or a canonical known-finding input). Returns Some(message) when the property fails on it.
pub fn replay_file(prop: &str, file: &str, known: &Known, strict: bool) -> Result<Option<String>, String> {
    let text = std::fs::read_to_string(file).map_err(|e| format!("{}: {}", file, e))?;
    let v: serde_json::Value = serde_json::from_str(&text).map_err(|e| e.to_string())?;
    let part = v["part"].as_str().ok_or("replay file has no part")?;
    let tape: Vec<u16> = v["tape"].as_array().ok_or("replay file has no tape")?.iter().map(|x| x.as_u64().unwrap_or(0) as u16).collect();
    let ctx = crate::runner::Ctx { known, strict };
    // relations between two expansions (and message tables) replay from the stored texts: no generator involved
    if let Some(r) = relation_replay(prop, part, &v["detail"]) {
        return Ok(r);
    }
    for p in parts(prop) {
        if p.name() == part {
            let rep = match v["case"].as_str().or_else(|| v["detail"]["input"].as_str()).and_then(|c| p.run_text(c, &ctx)) {
                Some(r) => r,
                None => p.run_case(&tape, &ctx),
            };
            return Ok(match rep.verdict {
                crate::runner::Verdict::Fail { msg, .. } => Some(msg),
                _ => None,
            });
        }
    }
    for p in e2_parts(prop) {
        if p.name() == part {
            let d = &v["detail"];
            let stored = match (d["harness"].as_str(), d["run"].as_str(), d["derives"].as_array()) {
                (Some(h), Some(r), Some(ds)) => Some(crate::e2::E2Case {
                    harness_src: h.to_string(),
                    derives: ds.iter().filter_map(|x| x.as_str().map(|s| s.to_string())).collect(),
                    run_src: r.to_string(),
                    key: d["key"].as_str().unwrap_or("").to_string(),
                    labels: vec![],
                    nontrivial: true,
                    facts: d["facts"].as_array().map(|a| a.iter().filter_map(|x| x.as_str().map(|s| s.to_string())).collect()).unwrap_or_default(),
                }),
                _ => None,
            };
            return crate::e2::replay_e2(p.as_ref(), &tape, stored, known, strict);
        }
    }
    // cross-process parts: the stored input text wins over the tape (the tape only reproduces it with the generator it was drawn from)
    let stored = v["detail"]["input"].as_str().or_else(|| v["case"].as_str()).map(|s| s.lines().filter(|l| !l.starts_with("// outcome:")).collect::<Vec<_>>().join("\n"));
    replay_special(prop, part, &tape, stored.as_deref(), known, strict)
}

/// Parts that are not E1 parts (cross-process, compile-and-run) replay through their own entry points.
fn replay_special(prop: &str, part: &str, tape: &[u16], stored: Option<&str>, known: &Known, strict: bool) -> Result<Option<String>, String> {
    match (prop, part) {
        ("C19", "cross-process") => c19::replay_cross(tape, stored, known, strict),
        ("C18", "backend-diff") => c18::replay(tape, stored, known),
        // findings of the libFuzzer `text` target: the stored input goes through the same oracle, strictly
        ("C16", "text") | ("C19", "text") | ("C17", "text") => {
            let _ = (known, strict);
            std::env::set_var("VF_FUZZ_STRICT", "1");
            Ok(stored.and_then(crate::fuzzing::text_oracle).filter(|m| m.starts_with(&format!("property={} ", prop))))
        }
        _ => Err(format!("no part {} in {}", part, prop)),
    }
}

/// For every open known finding of `prop`: replay its canonical input strictly and emit the KNOWN-FINDING line if it still fails.
pub fn report_known(prop: &str, known: &Known) -> Vec<String> {
    let mut lines = vec![];
    for e in known.for_prop(prop) {
        let file = format!("{}/known/{}-{}.json", crate::verif_root(), prop, crate::runner::safe_sig(&e.sig));
        match replay_file(prop, &file, known, true) {
            Ok(Some(_)) => lines.push(format!("KNOWN-FINDING: property={} sig={} {}", prop, e.sig, e.desc)),
            Ok(None) => lines.push(format!("note: known finding {} of {} no longer reproduces on its canonical input ({})", e.sig, prop, file)),
            Err(err) => lines.push(format!("note: cannot replay canonical input of known finding {} of {}: {}", e.sig, prop, err)),
        }
    }
    lines
}
