//! C09 — literal / pattern instructions map enum variants to primitive values both ways.

use crate::dsl::*;
use crate::e2::{CaseOutcome, E2Case, E2Part, Mode};
use crate::runner::Tier;
use crate::tape::Tape;
use std::fmt::Write;

pub struct Primitive;

#[derive(Clone, Debug)]
enum Arm {
    Lit(i64),
    /// inclusive range
    Range(i64, i64),
    /// open range a..
    From(i64),
    Alt(Vec<i64>),
    /// `_` with a payload-carrying variant Other(prim)
    CatchAll,
}

const ALPHABET: [&str; 6] = ["a", "bb", "c~", "@d", "ee", "f"];

fn gen_case(t: &mut Tape) -> E2Case {
    let mut labels = vec![];
    let strs = t.chance(1, 4);
    let prim = if strs { "Str" } else { *t.pick(&["i8", "u8", "i32", "i32"]) };
    labels.push(format!("type:{}", prim));
    let (lo, hi): (i64, i64) = match prim {
        "i8" => (-128, 127),
        "u8" => (0, 255),
        "i32" => (-100_000, 100_000),
        _ => (0, 5),
    };
    let mut cells = [false; 6];
    for k in [FO, FR, OI, RI] {
        cells[k] = t.chance(3, 5);
    }
    if strs {
        // a string literal pattern does not match through `&&str`: the README maps strings with owned kinds only
        cells[FR] = false;
        cells[RI] = false;
    }
    if !cells[FO] && !cells[FR] {
        cells[FO] = true;
    }
    let fallible = t.chance(1, 3);
    let has_into = cells[OI] || cells[RI];
    let has_ref = cells[FR] || cells[RI];
    let nv = 2 + t.below(6);
    let val = |t: &mut Tape| -> i64 {
        if strs {
            t.below(6) as i64
        } else if prim == "i32" {
            // cluster values so that overlaps happen
            (t.below(40) as i64 - 10) * 50
        } else {
            lo + (t.below(((hi - lo) / 8) as usize + 1) as i64) * 8 % (hi - lo + 1)
        }
    };
    let mut arms: Vec<(Arm, Option<i64>)> = vec![]; // (arm, into value for non-literal arms)
    let mut has_catch_all = false;
    for vi in 0..nv {
        let kind = if vi == nv - 1 && t.chance(1, 4) && !has_catch_all { 4 } else { t.weighted(&[5, if strs { 0 } else { 3 }, if strs { 0 } else { 1 }, 3]) };
        let arm = match kind {
            0 => Arm::Lit(val(t)),
            1 => {
                let a = val(t);
                let b = (a + 1 + t.below(60) as i64).min(hi);
                Arm::Range(a.min(b), b.max(a))
            }
            2 => Arm::From(val(t)),
            3 => {
                let n = 2 + t.below(2);
                Arm::Alt((0..n).map(|_| val(t)).collect())
            }
            _ => {
                has_catch_all = true;
                Arm::CatchAll
            }
        };
        let into_v = match &arm {
            Arm::Lit(_) | Arm::CatchAll => None,
            Arm::Range(a, _) => Some(*a),
            Arm::From(a) => Some(*a),
            Arm::Alt(v) => Some(v[0]),
        };
        arms.push((arm, into_v));
    }
    let lit_text = |v: i64| -> String { if strs { format!("\"{}\"", ALPHABET[v as usize]) } else { format!("{}", v) } };
    // optional second primitive counterpart (i64, From only): some variants carry a literal / pattern dedicated to it
    let second = !strs && !has_catch_all && t.chance(1, 3);
    let mut arms2: Vec<Option<Arm>> = vec![None; nv];
    if second {
        labels.push("second-counterpart".into());
        for vi in 0..nv {
            if t.chance(1, 2) {
                arms2[vi] = Some(match &arms[vi].0 {
                    Arm::Lit(_) => Arm::Lit(1000 + 7 * vi as i64 + t.below(5) as i64),
                    _ => {
                        let a = 2000 + 100 * vi as i64;
                        Arm::Range(a, a + 1 + t.below(40) as i64)
                    }
                });
                labels.push("dedicated-literal-or-pattern".into());
            }
        }
    }
    // a literal variant may carry a payload that exists on this side only (a ghost field with a default): converting it still
    // yields the literal, the literal still yields the variant (with the default in the payload)
    let payload: Vec<bool> = arms.iter().map(|(a, _)| matches!(a, Arm::Lit(_)) && !second && t.chance(1, 6)).collect();
    if payload.iter().any(|x| *x) {
        labels.push("literal-variant-with-ghost-payload".into());
    }
    let ctor = |vi: usize| -> String { if payload[vi] { format!("S::V{}(77)", vi) } else { format!("S::V{}", vi) } };
    let vpat = |vi: usize| -> String { if payload[vi] { format!("S::V{}(_)", vi) } else { format!("S::V{}", vi) } };
    // default case
    let default_variant = t.below(nv);
    let default_is_err = fallible && t.coin();
    let default_dsl = if default_is_err {
        "Err(E(9))?".to_string()
    } else if matches!(arms[default_variant].0, Arm::CatchAll) {
        format!("S::V{}({})", default_variant, lit_text(if strs { 0 } else { lo }))
    } else {
        ctor(default_variant)
    };
    let with_default = !has_catch_all || t.chance(1, 3);

    // ---- derive input ----------------------------------------------------------------------------
    let mut names = crate::gen::cover_cells(t, cells, fallible);
    t.shuffle(&mut names);
    let mut type_attrs = String::new();
    // the Into conversions may be given as one quick return on the trait instruction instead of per-variant #[into(..)]
    // (only when no instruction name serves both directions: `return` replaces the body of every impl it produces)
    let mixed_names = names.iter().any(|n| {
        let (ks, _) = trait_name_cells(n).unwrap();
        ks.iter().any(|k| *k == FO || *k == FR) && ks.iter().any(|k| *k == OI || *k == RI)
    });
    let quick_into = has_into && !mixed_names && !strs && t.chance(1, 4);
    if quick_into {
        labels.push("into-by-quick-return".into());
    }
    let quick_body = {
        let mut m = String::new();
        for (vi, (arm, into_v)) in arms.iter().enumerate() {
            match arm {
                Arm::Lit(v) => {
                    let _ = write!(m, "{} => {}, ", vpat(vi), lit_text(*v));
                }
                Arm::CatchAll => {
                    let _ = write!(m, "S::V{}(p) => p.clone(), ", vi);
                }
                _ => {
                    let _ = write!(m, "S::V{} => {}, ", vi, lit_text(into_v.unwrap()));
                }
            }
        }
        if fallible { format!("return Ok(match @ {{ {} }})", m) } else { format!("return match @ {{ {} }}", m) }
    };
    for n in &names {
        let (ks, _) = trait_name_cells(n).unwrap();
        let is_from = ks.iter().any(|k| *k == FO || *k == FR);
        let tail = if with_default && is_from {
            format!("| _ => {}", default_dsl)
        } else if quick_into && !is_from {
            format!("| {}", quick_body)
        } else {
            String::new()
        };
        let _ = write!(type_attrs, "#[{}({}{}{})]\n", n, prim, if fallible { ", E" } else { "" }, tail);
    }
    if second {
        let _ = write!(type_attrs, "#[{}(i64{}| _ => {})]\n", if fallible { "try_from_owned" } else { "from_owned" }, if fallible { ", E" } else { "" }, default_dsl);
    }
    let mut variants_attr = String::new();
    let mut variants_plain = String::new();
    let ghost_variant_after: Option<usize> = if !has_into && with_default && t.chance(1, 5) { Some(t.below(nv)) } else { None };
    let mut consts: Vec<String> = vec![];
    let mut const_defs = String::new();
    for (vi, (arm, into_v)) in arms.iter().enumerate() {
        let mut a = String::new();
        match arm {
            Arm::Lit(v) => {
                labels.push("literal".into());
                // a literal may also be written as a constant (a lone path is still the value, not a dedication); only without a
                // by-reference From kind: a constant pattern does not match through `&prim` (Rust, not o2o), like string literals
                if !strs && !second && !cells[FR] && t.chance(1, 4) {
                    labels.push("literal:const-path".into());
                    let name = if *v == hi && prim != "i32" && t.coin() { format!("{}::MAX", prim) } else { format!("K{}{}", if *v < 0 { "M" } else { "" }, v.abs()) };
                    if !name.contains("::") && !consts.contains(&name) {
                        consts.push(name.clone());
                        let _ = write!(const_defs, "pub const {}: {} = {};\n", name, prim, v);
                    }
                    let _ = write!(a, "#[literal({})] ", name);
                } else {
                    let _ = write!(a, "#[literal({})] ", lit_text(*v));
                }
            }
            Arm::Range(x, y) => {
                labels.push("pattern:range".into());
                let _ = write!(a, "#[pattern({}..={})] ", x, y);
            }
            Arm::From(x) => {
                labels.push("pattern:open-range".into());
                let _ = write!(a, "#[pattern({}..)] ", x);
            }
            Arm::Alt(v) => {
                labels.push("pattern:alternation".into());
                let _ = write!(a, "#[pattern({})] ", v.iter().map(|x| lit_text(*x)).collect::<Vec<_>>().join(" | "));
            }
            Arm::CatchAll => {
                labels.push("pattern:catch-all".into());
                a.push_str("#[pattern(_)] ");
            }
        }
        if let Some(a2) = &arms2[vi] {
            let ded = match a2 {
                Arm::Lit(v) => format!("#[literal(i64| {})] ", v),
                Arm::Range(x, y) => format!("#[pattern(i64| {}..={})] ", x, y),
                _ => String::new(),
            };
            // default written first is the order a first-match lookup gets wrong
            if t.chance(2, 3) {
                a.push_str(&ded);
            } else {
                a = format!("{}{}", ded, a);
            }
        }
        if has_into && !quick_into {
            // a fallible conversion takes the member instruction of exactly its kind first: half of the fallible enums spell the
            // variant-level instructions with the try_ names (seeded change C09-10)
            let try_names = fallible && t.coin();
            if try_names {
                labels.push("variant-into:try-spelling".into());
            }
            match arm {
                Arm::Lit(_) => {}
                Arm::CatchAll => {
                    if has_ref {
                        if cells[OI] {
                            a.push_str(if try_names { "#[owned_try_into({ f0 })] " } else { "#[owned_into({ f0 })] " });
                        }
                        if cells[RI] {
                            a.push_str(if try_names { "#[ref_try_into({ *f0 })] " } else { "#[ref_into({ *f0 })] " });
                        }
                    } else {
                        a.push_str(if try_names { "#[try_into({ f0 })] " } else { "#[into({ f0 })] " });
                    }
                }
                _ => {
                    let _ = write!(a, "#[{}({{ {} }})] ", if try_names { "try_into" } else { "into" }, lit_text(into_v.unwrap()));
                }
            }
        }
        match arm {
            Arm::CatchAll => {
                let fa = if has_ref { format!("{}{}", if cells[FO] { "#[from_owned(@)] " } else { "" }, if cells[FR] { "#[from_ref(*@)] " } else { "" }) } else { "#[from(@)] ".to_string() };
                let _ = write!(variants_attr, "{}V{}({}{}), ", a, vi, fa, prim);
                let _ = write!(variants_plain, "V{}({}), ", vi, prim);
            }
            _ if payload[vi] => {
                let _ = write!(variants_attr, "{}V{}(#[ghost({{ 77 }})] i64), ", a, vi);
                let _ = write!(variants_plain, "V{}(i64), ", vi);
            }
            _ => {
                let _ = write!(variants_attr, "{}V{}, ", a, vi);
                let _ = write!(variants_plain, "V{}, ", vi);
            }
        }
        // a variant that exists on this side only (From kinds never produce it; needs the `_ =>` default case to stay exhaustive)
        if ghost_variant_after == Some(vi) {
            labels.push("ghost-variant".into());
            variants_attr.push_str("#[ghost] G, ");
            variants_plain.push_str("G, ");
        }
    }
    let derive_input = format!("{}pub enum S {{ {} }}", type_attrs, variants_attr);

    // ---- harness: the first-match model ------------------------------------------------------------
    let mut h = String::new();
    h.push_str("#[derive(Debug, Clone, PartialEq)] pub struct E(pub i64);\npub type Str = &'static str;\n");
    h.push_str(&const_defs);
    let _ = write!(h, "#[derive(Debug, Clone, PartialEq)] pub enum S {{ {} }}\n", variants_plain);
    let eq = |v: i64| -> String { if strs { format!("v == \"{}\"", ALPHABET[v as usize]) } else { format!("v == {}", v) } };
    let mut model = String::new();
    for (vi, (arm, _)) in arms.iter().enumerate() {
        let cond = match arm {
            Arm::Lit(v) => eq(*v),
            Arm::Range(a, b) => format!("({}..={}).contains(&v)", a, b),
            Arm::From(a) => format!("v >= {}", a),
            Arm::Alt(vs) => vs.iter().map(|x| eq(*x)).collect::<Vec<_>>().join(" || "),
            Arm::CatchAll => "true".to_string(),
        };
        let res = if matches!(arm, Arm::CatchAll) { format!("S::V{}(v)", vi) } else { ctor(vi) };
        let _ = write!(model, "if {} {{ return Some(Ok({})); }} ", cond, res);
    }
    let default_model = if with_default { if default_is_err { "Some(Err(E(9)))".to_string() } else { format!("Some(Ok({}))", default_dsl) } } else { "None".to_string() };
    let _ = write!(h, "pub fn ref_from(v: {}) -> Option<::core::result::Result<S, E>> {{ {} {} }}\n", prim, model, default_model);
    if second {
        let mut model2 = String::new();
        for (vi, (arm, _)) in arms.iter().enumerate() {
            let eff = arms2[vi].as_ref().unwrap_or(arm);
            let cond = match eff {
                Arm::Lit(v) => format!("v == {}", v),
                Arm::Range(a, b) => format!("({}..={}).contains(&v)", a, b),
                Arm::From(a) => format!("v >= {}", a),
                Arm::Alt(vs) => vs.iter().map(|x| format!("v == {}", x)).collect::<Vec<_>>().join(" || "),
                Arm::CatchAll => "true".to_string(),
            };
            let _ = write!(model2, "if {} {{ return Ok({}); }} ", cond, ctor(vi));
        }
        let d2 = if default_is_err { "Err(E(9))".to_string() } else { format!("Ok({})", default_dsl) };
        let _ = write!(h, "pub fn ref_from2(v: i64) -> ::core::result::Result<S, E> {{ {} {} }}\n", model2, d2);
        let mut pts: Vec<i64> = vec![0, -1, 1, i64::MIN, i64::MAX];
        for (vi, (arm, _)) in arms.iter().enumerate() {
            for a in [Some(arm), arms2[vi].as_ref()].into_iter().flatten() {
                let b: Vec<i64> = match a {
                    Arm::Lit(v) => vec![*v],
                    Arm::Range(x, y) => vec![*x, *y],
                    Arm::From(x) => vec![*x],
                    Arm::Alt(v) => v.clone(),
                    Arm::CatchAll => vec![],
                };
                for x in b {
                    pts.extend([x - 1, x, x + 1]);
                }
            }
        }
        pts.sort();
        pts.dedup();
        let _ = write!(h, "pub fn values2() -> Vec<i64> {{ vec![{}] }}\n", pts.iter().map(|x| format!("{}i64", x)).collect::<Vec<_>>().join(", "));
    }
    let mut into_arms = String::new();
    for (vi, (arm, into_v)) in arms.iter().enumerate() {
        match arm {
            Arm::Lit(v) => {
                let _ = write!(into_arms, "{} => {}, ", vpat(vi), lit_text(*v));
            }
            Arm::CatchAll => {
                let _ = write!(into_arms, "S::V{}(p) => *p, ", vi);
            }
            _ => {
                let _ = write!(into_arms, "S::V{} => {}, ", vi, lit_text(into_v.unwrap()));
            }
        }
    }
    if ghost_variant_after.is_some() {
        into_arms.push_str("S::G => unreachable!(), ");
    }
    let _ = write!(h, "pub fn ref_into(s: &S) -> {} {{ match s {{ {} }} }}\n", prim, into_arms);
    // values to try
    let values: String = if strs {
        format!("vec![{}, \"zz-foreign\"]", ALPHABET.iter().map(|a| format!("\"{}\"", a)).collect::<Vec<_>>().join(", "))
    } else if prim == "i32" {
        let mut pts: Vec<i64> = vec![lo, hi, 0, -1, 1, i32::MIN as i64, i32::MAX as i64];
        for (arm, _) in &arms {
            let b: Vec<i64> = match arm {
                Arm::Lit(v) => vec![*v],
                Arm::Range(a, b) => vec![*a, *b],
                Arm::From(a) => vec![*a],
                Arm::Alt(v) => v.clone(),
                Arm::CatchAll => vec![],
            };
            for x in b {
                pts.extend([x - 1, x, x + 1]);
            }
        }
        for _ in 0..12 {
            pts.push((t.below(40) as i64 - 10) * 50 + t.below(7) as i64 - 3);
        }
        pts.sort();
        pts.dedup();
        format!("vec![{}]", pts.iter().filter(|x| **x >= i32::MIN as i64 && **x <= i32::MAX as i64).map(|x| format!("{}i32", x)).collect::<Vec<_>>().join(", "))
    } else {
        format!("({}::MIN..={}::MAX).collect::<Vec<{}>>()", prim, prim, prim)
    };
    let _ = write!(h, "pub fn values() -> Vec<{}> {{ {} }}\n", prim, values);
    let all_variants: String = arms.iter().enumerate().map(|(vi, (arm, _))| if matches!(arm, Arm::CatchAll) { format!("S::V{}({})", vi, lit_text(if strs { 1 } else { (lo + hi) / 2 + 3 })) } else { ctor(vi) }).collect::<Vec<_>>().join(", ");
    let _ = write!(h, "pub fn variants() -> Vec<S> {{ vec![{}] }}\n", all_variants);
    // literal variants whose literal is reached by no earlier arm: From(Into(v)) == v must hold
    let mut rt: Vec<usize> = vec![];
    let matches = |arm: &Arm, v: i64| match arm {
        Arm::Lit(x) => *x == v,
        Arm::Range(a, b) => v >= *a && v <= *b,
        Arm::From(a) => v >= *a,
        Arm::Alt(vs) => vs.contains(&v),
        Arm::CatchAll => true,
    };
    for (vi, (arm, _)) in arms.iter().enumerate() {
        if let Arm::Lit(v) = arm {
            if !arms[..vi].iter().any(|(a, _)| matches(a, *v)) {
                rt.push(vi);
            }
        }
    }
    let distinct_literals = {
        let lits: Vec<i64> = arms.iter().filter_map(|(a, _)| if let Arm::Lit(v) = a { Some(*v) } else { None }).collect();
        let mut d = lits.clone();
        d.sort();
        d.dedup();
        d.len() == lits.len()
    };
    if !distinct_literals {
        labels.push("overlapping-literals".into());
    }

    // ---- run ---------------------------------------------------------------------------------------
    let mut r = String::new();
    r.push_str("fn report<T: core::fmt::Debug>(out: &mut Vec<String>, fl: &str, n: usize, bad: Option<(String, T, T)>) { match bad { None => out.push(format!(\"{}[{}values] OK\", fl, n)), Some((at, g, w)) => out.push(format!(\"{} MISMATCH got={:?} want={:?} at {}\", fl, g, w, at)) } }\n");
    r.push_str("pub fn run(out: &mut Vec<String>) {\n");
    let conv = |k: usize| -> String {
        match (k, fallible) {
            (FO, false) => "Ok::<S, E>(<S as ::core::convert::From<P>>::from(v))".into(),
            (FR, false) => "Ok::<S, E>(<S as ::core::convert::From<&P>>::from(&v))".into(),
            (FO, true) => "<S as ::core::convert::TryFrom<P>>::try_from(v)".into(),
            (FR, true) => "<S as ::core::convert::TryFrom<&P>>::try_from(&v)".into(),
            _ => unreachable!(),
        }
    };
    for k in [FO, FR] {
        if !cells[k] {
            continue;
        }
        let _ = write!(
            r,
            "    {{ type P = {}; let mut bad = None; let vals = values(); for v in vals.iter().cloned() {{ let want = match ref_from(v) {{ Some(w) => w, None => continue }}; let got = {}; if got != want && bad.is_none() {{ bad = Some((format!(\"{{:?}}\", v), got, want)); }} }} report(out, \"{}\", vals.len(), bad); }}\n",
            prim,
            conv(k),
            basic_name(k, fallible)
        );
    }
    if second {
        let conv2 = if fallible { "<S as ::core::convert::TryFrom<i64>>::try_from(v)" } else { "Ok::<S, E>(<S as ::core::convert::From<i64>>::from(v))" };
        let _ = write!(r, "    {{ let mut bad = None; let vals = values2(); for v in vals.iter().cloned() {{ let want = ref_from2(v); let got = {}; if got != want && bad.is_none() {{ bad = Some((format!(\"{{:?}}\", v), got, want)); }} }} report(out, \"i64:from_owned\", vals.len(), bad); }}\n", conv2);
    }
    for k in [OI, RI] {
        if !cells[k] {
            continue;
        }
        let call = match (k, fallible) {
            (OI, false) => "Ok::<P, E>(::core::convert::Into::into(s.clone()))",
            (RI, false) => "Ok::<P, E>(::core::convert::Into::into(s))",
            (OI, true) => "<S as ::core::convert::TryInto<P>>::try_into(s.clone())",
            (RI, true) => "<&S as ::core::convert::TryInto<P>>::try_into(s)",
            _ => unreachable!(),
        };
        let _ = write!(
            r,
            "    {{ type P = {}; let mut bad = None; let vs = variants(); for s in vs.iter() {{ let want: ::core::result::Result<P, E> = Ok(ref_into(s)); let got = {}; if got != want && bad.is_none() {{ bad = Some((format!(\"{{:?}}\", s), got, want)); }} }} report(out, \"{}\", vs.len(), bad); }}\n",
            prim, call, basic_name(k, fallible)
        );
    }
    if (cells[FO] || cells[FR]) && has_into && !rt.is_empty() {
        labels.push("roundtrip-checked".into());
        let into_call = if cells[OI] { if fallible { "<S as ::core::convert::TryInto<P>>::try_into(s.clone()).unwrap()" } else { "::core::convert::Into::into(s.clone())" } } else if fallible { "<&S as ::core::convert::TryInto<P>>::try_into(&s).unwrap()" } else { "::core::convert::Into::into(&s)" };
        let from_call = if cells[FO] { if fallible { "<S as ::core::convert::TryFrom<P>>::try_from(p).unwrap()" } else { "<S as ::core::convert::From<P>>::from(p)" } } else if fallible { "<S as ::core::convert::TryFrom<&P>>::try_from(&p).unwrap()" } else { "<S as ::core::convert::From<&P>>::from(&p)" };
        let _ = write!(
            r,
            "    {{ type P = {}; let mut bad = None; let idx: [usize; {}] = {:?}; let vs = variants(); for i in idx.iter() {{ let s = vs[*i].clone(); let p: P = {}; let back: S = {}; if back != s && bad.is_none() {{ bad = Some((format!(\"{{:?}}\", s), back, s.clone())); }} }} report(out, \"roundtrip\", idx.len(), bad); }}\n",
            prim, rt.len(), rt, into_call, from_call
        );
    }
    r.push_str("}\n");
    let range_or_alt = arms.iter().any(|(a, _)| matches!(a, Arm::Range(..) | Arm::From(_) | Arm::Alt(_)));
    let nontrivial = range_or_alt && nv >= 3;
    if fallible {
        labels.push("fallible".into());
    }
    labels.push(format!("variants:{}", nv));
    E2Case { harness_src: h, derives: vec![derive_input.clone()], run_src: r, key: derive_input, labels, nontrivial, facts: vec![] }
}

impl E2Part for Primitive {
    fn name(&self) -> &'static str {
        "primitive"
    }
    fn prop(&self) -> &'static str {
        "C09"
    }
    fn rule(&self) -> String {
        "Enums of 2-7 variants mapped to i8 / u8 / i32 / &'static str (alphabet of 6 short strings incl. ones containing ~ and @): each variant carries #[literal(x)], #[pattern(a..=b)], #[pattern(a..)], #[pattern(a | b | c)] (with #[into(..)] when an Into kind is requested) or is a catch-all #[pattern(_)] Other(#[from(@)] prim); literal and pattern values are clustered so that they overlap with earlier ones; `_ => Variant` or `_ => Err(E(9))?` default case; From/Into owned/ref, fallible or not. Oracle: a first-match model (first arm in declaration order whose literal / pattern matches, else the default case) written as an if-chain; From is evaluated on every value of 8-bit types, on all literal / range boundaries +-1 plus random points and the type extremes for i32, on all alphabet strings plus a foreign one for strings; Into on every variant; and From(Into(v)) == v for every literal variant whose literal no earlier arm matches. Non-trivial = >= 1 range or alternation pattern and >= 3 variants; distinct by derive-input text.".into()
    }
    fn cases(&self, tier: Tier) -> usize {
        match tier {
            Tier::Quick => 2_400,
            Tier::Thorough => 24_000,
        }
    }
    fn mode(&self) -> Mode {
        Mode::Run
    }
    fn gen(&self, tape: &[u16]) -> E2Case {
        let mut t = Tape::new(tape);
        gen_case(&mut t)
    }
    fn sig(&self, _case: &E2Case, outcome: &CaseOutcome) -> Option<String> {
        match outcome {
            CaseOutcome::Rejected(m) if m.contains("panic") => Some("panic-is-C16".into()),
            _ => None,
        }
    }
}

pub fn e2_parts() -> Vec<Box<dyn E2Part>> {
    vec![Box::new(Primitive)]
}
