//! C16 — expansion never panics: every input yields impls or diagnostics.

use crate::gen::GenOpts;
use crate::runner::{CaseReport, Ctx, Part, Tier, Verdict};
use crate::tape::Tape;
use crate::wild::{gen_soup_item, gen_wild, wild_opts};
use crate::xp::{expand, panic_sig, Outcome, ROOT_ERR};
use serde_json::json;
use std::fmt::Write;

pub struct Wild {
    opts: GenOpts,
}
pub struct Soup;
pub struct Valid {
    opts: GenOpts,
}

pub fn parts() -> Vec<Box<dyn Part>> {
    vec![Box::new(Wild { opts: wild_opts() }), Box::new(Soup), Box::new(Valid { opts: wild_opts() }), Box::new(Lattice)]
}

pub fn judge(text: String, mut labels: Vec<String>, ctx: &Ctx) -> CaseReport {
    let out = expand(&text);
    labels.push(format!("outcome:{}", out.kind()));
    let reached_validate = match &out {
        Outcome::Ok(_) | Outcome::Panic(_) => true,
        Outcome::Err(m) => m.first().map_or(false, |x| x == ROOT_ERR),
        Outcome::NotAnItem(_) => false,
    };
    if reached_validate {
        labels.push("reached-validate".into());
    }
    let verdict = match &out {
        Outcome::Panic(m) => {
            let sig = panic_sig(m);
            ctx.fail_or_known("C16", Some(&sig), format!("derive panicked: {} [sig={}]", m, sig), json!({"input": text, "panic": m, "sig": sig}))
        }
        Outcome::NotAnItem(e) => Verdict::Discard(format!("not-an-item: {}", e.chars().take(40).collect::<String>())),
        _ => Verdict::Pass,
    };
    CaseReport { key: text, nontrivial: reached_validate, labels, verdict }
}

impl Part for Wild {
    fn name(&self) -> &'static str {
        "wild"
    }
    fn prop(&self) -> &'static str {
        "C16"
    }
    fn rule(&self) -> String {
        "L1 wild mode: a generated (mostly valid) struct/enum/union input plus 1-6 random mutations (wild instruction inserted at any level with typed or token-soup arguments, arguments of an existing instruction replaced, instruction copied to another site, attribute deleted, exotic field type, empty/union item, generics); oracle: catch_unwind(derive) is Ok or Err. Non-trivial = expansion got past attribute parsing (Ok, or Err led by the o2o root error), distinct by input text.".into()
    }
    fn cases(&self, tier: Tier) -> usize {
        match tier {
            Tier::Quick => 72_000,
            Tier::Thorough => 1_600_000,
        }
    }
    fn max_tape(&self) -> usize {
        320
    }
    fn run_case(&self, tape: &[u16], ctx: &Ctx) -> CaseReport {
        let mut t = Tape::new(tape);
        let (item, labels) = gen_wild(&mut t, &self.opts);
        judge(item.render(), labels, ctx)
    }
    fn run_text(&self, text: &str, ctx: &Ctx) -> Option<CaseReport> {
        Some(judge(text.to_string(), vec![], ctx))
    }
}

impl Part for Soup {
    fn name(&self) -> &'static str {
        "soup"
    }
    fn prop(&self) -> &'static str {
        "C16"
    }
    fn rule(&self) -> String {
        "L0 token soup: small struct/enum skeleton where every attribute (type, field, variant, payload field) is a random instruction name (52 names incl. unknown ones and foreign attrs) with no args, a typed argument from a 40-entry table, or a random balanced token tree (idents, keywords, all literal kinds containing @ and ~, lifetimes, joint punctuation, nested ()[]{}); 3/4 of inputs start with one parseable trait instruction. Same oracle and non-triviality rule as `wild`.".into()
    }
    fn cases(&self, tier: Tier) -> usize {
        match tier {
            Tier::Quick => 48_000,
            Tier::Thorough => 1_000_000,
        }
    }
    fn max_tape(&self) -> usize {
        256
    }
    fn run_case(&self, tape: &[u16], ctx: &Ctx) -> CaseReport {
        let mut t = Tape::new(tape);
        let (item, labels) = gen_soup_item(&mut t);
        judge(item.render(), labels, ctx)
    }
    fn run_text(&self, text: &str, ctx: &Ctx) -> Option<CaseReport> {
        Some(judge(text.to_string(), vec![], ctx))
    }
}

impl Part for Valid {
    fn name(&self) -> &'static str {
        "valid"
    }
    fn prop(&self) -> &'static str {
        "C16"
    }
    fn rule(&self) -> String {
        "L1 valid mode with every feature switched on (repeat, generics, into_existing on enums); no mutation. Same oracle.".into()
    }
    fn cases(&self, tier: Tier) -> usize {
        match tier {
            Tier::Quick => 24_000,
            Tier::Thorough => 400_000,
        }
    }
    fn max_tape(&self) -> usize {
        320
    }
    fn run_case(&self, tape: &[u16], ctx: &Ctx) -> CaseReport {
        let mut t = Tape::new(tape);
        let (item, labels) = crate::gen::gen_item(&mut t, &self.opts);
        judge(item.render(), labels, ctx)
    }
    fn run_text(&self, text: &str, ctx: &Ctx) -> Option<CaseReport> {
        Some(judge(text.to_string(), vec![], ctx))
    }
}

/// The fallback lattice: which member instruction serves a conversion is decided by kind set, fallibility and dedication, once in
/// validation and once in expansion. This generator spans that choice directly: every member carries 0-3 mapping instructions whose
/// names are drawn from all 21 spellings, each with or without a counterpart member name and an action, under 1-2 trait instructions
/// of any of the 24 spellings with any of the four hints, on named / tuple structs and enum variants, with `#[child_parents]` entries
/// of any hint.
pub struct Lattice;

const LAT_HINTS: [&str; 4] = ["", " as {}", " as ()", " as Unit"];

fn flip_fallible(name: &str) -> String {
    if name.contains("try_") {
        name.replacen("try_", "", 1)
    } else if let Some(rest) = name.strip_prefix("owned_") {
        format!("owned_try_{}", rest)
    } else if let Some(rest) = name.strip_prefix("ref_") {
        format!("ref_try_{}", rest)
    } else {
        format!("try_{}", name)
    }
}

fn flip_existing(name: &str) -> Option<String> {
    if let Some(base) = name.strip_suffix("_existing") {
        Some(base.to_string())
    } else if name.ends_with("into") {
        Some(format!("{}_existing", name))
    } else {
        None
    }
}

/// The member-level spellings related to the given trait-level ones by a change of fallibility and / or into <-> into_existing.
fn relatives(trait_names: &[&str]) -> Vec<&'static str> {
    let mut pool: Vec<String> = vec![];
    for n in trait_names {
        let mut group = vec![n.to_string(), flip_fallible(n)];
        for g in group.clone() {
            if let Some(e) = flip_existing(&g) {
                group.push(e);
            }
        }
        pool.extend(group);
    }
    crate::dsl::MEMBER_MAP_NAMES.iter().copied().filter(|m| pool.iter().any(|p| p == m)).collect()
}

fn lat_member_attrs(t: &mut Tape, tys: &[&str], pool: &[&'static str], child_paths: &[&str], labels: &mut Vec<String>) -> String {
    let mut s = String::new();
    let n = t.weighted(&[2, 4, 4, 2]);
    for _ in 0..n {
        match t.weighted(&[12, 1, 1, 1, 1]) {
            0 => {
                let name = if !pool.is_empty() && t.chance(2, 3) { *t.pick(pool) } else { *t.pick(&crate::dsl::MEMBER_MAP_NAMES) };
                let ded = if t.chance(1, 5) { format!("{}| ", t.pick(tys)) } else { String::new() };
                let member = *t.pick(&["", "", "nm", "1", "0"]);
                let action = *t.pick(&["", "", "~.clone()", "@.x + 1", "{ 5 }"]);
                let args = match (member.is_empty(), action.is_empty()) {
                    (true, true) => ded.trim_end().to_string(),
                    (false, true) => format!("{}{}", ded, member),
                    (true, false) => format!("{}{}", ded, action),
                    (false, false) => format!("{}{}, {}", ded, member, action),
                };
                if args.is_empty() {
                    let _ = write!(s, "#[{}] ", name);
                } else {
                    let _ = write!(s, "#[{}({})] ", name, args);
                }
                if member.is_empty() {
                    labels.push("lattice:nameless-instr".into());
                }
            }
            1 => s.push_str(*t.pick(&["#[ghost] ", "#[ghost({ 1 })] ", "#[o2o(ghost_owned({ 2 }))] ", "#[o2o(ghost_ref(Foo| { 3 }))] "])),
            2 => {
                if !child_paths.is_empty() {
                    let ded = if t.chance(1, 4) { format!("{}| ", t.pick(tys)) } else { String::new() };
                    let _ = write!(s, "#[child({}{})] ", ded, t.pick(child_paths));
                    labels.push("lattice:child".into());
                    labels.push("child:path".into());
                }
            }
            4 => {
                s.push_str(*t.pick(&["#[o2o(as_type(i64))] ", "#[o2o(as_type(nm, i64))] ", "#[o2o(as_type(1, i64))] ", "#[o2o(as_type(Foo| i64))] ", "#[o2o(repeat)] ", "#[o2o(stop_repeat)] ", "#[o2o(skip_repeat)] ", "#[o2o(repeat(map, ghost))] "]));
                labels.push("lattice:as_type-or-repeat".into());
            }
            _ => {
                let p = *t.pick(&["#[parent] ", "#[parent(x, [map(y)] z)] ", "#[parent(Foo| 0, 1)] ", "#[parent([parent(x)] inner: Inner)] ", "#[parent(x, [parent(y, [from(z)] w)] inner)] ", "#[parent([parent(0)] 1: Inner)] ", "#[parent(Bar| [parent([parent(x)] a: A)] b: B)] "]);
                if p == "#[parent] " {
                    labels.push("parent:bare".into());
                }
                s.push_str(p);
            }
        }
    }
    s
}

pub fn gen_lattice(t: &mut Tape) -> (String, Vec<String>) {
    let mut labels = vec!["lattice".to_string()];
    let mut s = String::new();
    let shape = t.weighted(&[3, 4, 3]);
    let ntr = 1 + t.below(2);
    let tys = ["Foo", "Bar"];
    let mut any_fallible_ie = false;
    let mut trait_names = vec![];
    for i in 0..ntr {
        let name = *t.pick(&crate::dsl::TRAIT_NAMES);
        trait_names.push(name);
        let hint = LAT_HINTS[t.weighted(&[3, 3, 2, 1])];
        let fallible = name.contains("try_");
        any_fallible_ie |= fallible && name.ends_with("into_existing");
        let tail = if t.chance(1, 10) { " | return make(@)" } else if t.chance(1, 10) { " | ..Default::default()" } else { "" };
        if !hint.is_empty() {
            labels.push(format!("hint:{}", hint.trim()));
        }
        if tail.contains("..") {
            labels.push("param:update".into());
        }
        let _ = write!(s, "#[{}({}{}{}{})] ", name, tys[i], hint, if fallible { ", Err" } else { "" }, tail);
    }
    if any_fallible_ie {
        labels.push("lattice:fallible-into-existing".into());
    }
    let pool = relatives(&trait_names);
    // counterpart-only members: struct-level ghosts by name, by index or below a child path, for any counterpart
    if t.chance(1, 5) {
        let ded = if t.chance(1, 3) { format!("{}| ", t.pick(&tys)) } else { String::new() };
        let name = *t.pick(&["ghosts", "ghosts", "ghosts_owned", "ghosts_ref"]);
        let entries = *t.pick(&["g: { 1 }", "0: { 1 }", "2: { 1 }, g: { 2 }", "a.g: { 1 }", "a.0: { 1 }", "a.b.g: { 1 }", "g: { @.f0 }, 1: { 2 }"]);
        let _ = write!(s, "#[{}({}{})] ", name, ded, entries);
        labels.push("lattice:ghosts".into());
    }
    let mut child_paths: Vec<&str> = vec![];
    if shape < 2 && t.chance(2, 5) {
        let deep = t.coin();
        let ded = if t.chance(1, 4) { "Foo| " } else { "" };
        let h1 = LAT_HINTS[t.weighted(&[3, 2, 2, 2])];
        if deep {
            let h2 = LAT_HINTS[t.weighted(&[3, 2, 2, 2])];
            let _ = write!(s, "#[child_parents({}a: A{}, a.b: B{})] ", ded, h1, h2);
            child_paths = vec!["a", "a.b"];
        } else {
            let _ = write!(s, "#[child_parents({}a: A{})] ", ded, h1);
            child_paths = vec!["a"];
        }
        if h1 == " as Unit" {
            labels.push("lattice:unit-child-parent".into());
        }
    }
    match shape {
        0 | 1 => {
            let nf = 1 + t.below(3);
            let named = shape == 0;
            let _ = write!(s, "struct S {}", if named { "{ " } else { "(" });
            for i in 0..nf {
                let attrs = lat_member_attrs(t, &tys, &pool, &child_paths, &mut labels);
                if named {
                    let _ = write!(s, "{}f{}: i32, ", attrs, i);
                } else {
                    let _ = write!(s, "{}i32, ", attrs);
                }
            }
            s.push_str(if named { "}" } else { ");" });
            labels.push(if named { "lattice:named".into() } else { "lattice:tuple".into() });
        }
        _ => {
            s.push_str("enum S { ");
            let nv = 1 + t.below(2);
            for v in 0..nv {
                if t.chance(1, 2) {
                    let ded = if t.chance(1, 4) { format!("{}| ", t.pick(&tys)) } else { String::new() };
                    let _ = write!(s, "#[type_hint({}{})] ", ded, LAT_HINTS[1 + t.below(3)].trim_start());
                }
                if t.chance(1, 8) {
                    let ded = if t.chance(1, 3) { format!("{}| ", t.pick(&tys)) } else { String::new() };
                    let _ = write!(s, "#[ghosts({}{})] ", ded, t.pick(&["g: { 1 }", "0: { 1 }", "1: { 1 }, g: { 2 }"]));
                    labels.push("lattice:variant-ghosts".into());
                }
                if t.chance(1, 3) {
                    let name = *t.pick(&crate::dsl::MEMBER_MAP_NAMES);
                    let _ = write!(s, "#[{}(W{})] ", name, v);
                }
                if t.chance(1, 6) {
                    s.push_str(*t.pick(&["#[literal(1)] ", "#[pattern(_)] ", "#[ghost] ", "#[literal(Foo| 1)] ", "#[pattern(Bar| 1 | 2)] ", "#[ghost(Foo| { S::V0 })] "]));
                }
                let vshape = t.below(3);
                let nf = 1 + t.below(2);
                match vshape {
                    0 => {
                        let _ = write!(s, "V{}, ", v);
                    }
                    1 => {
                        labels.push("variant:Tuple".into());
                        let _ = write!(s, "V{}(", v);
                        for _ in 0..nf {
                            let attrs = lat_member_attrs(t, &tys, &pool, &[], &mut labels);
                            let _ = write!(s, "{}i32, ", attrs);
                        }
                        s.push_str("), ");
                    }
                    _ => {
                        labels.push("variant:Named".into());
                        let _ = write!(s, "V{} {{ ", v);
                        for i in 0..nf {
                            let attrs = lat_member_attrs(t, &tys, &pool, &[], &mut labels);
                            let _ = write!(s, "{}f{}: i32, ", attrs, i);
                        }
                        s.push_str("}, ");
                    }
                }
            }
            s.push('}');
            labels.push("lattice:enum".into());
        }
    }
    (s, labels)
}

impl Part for Lattice {
    fn name(&self) -> &'static str {
        "lattice"
    }
    fn prop(&self) -> &'static str {
        "C16"
    }
    fn rule(&self) -> String {
        "Instruction-selection lattice: 1-2 trait instructions of any of the 24 spellings with any hint (none, {}, (), Unit), optional `return` / `..update`, optional #[child_parents] with one or two levels of any hint, optional struct-level / variant-level #[ghosts] (by name, index or child path, with or without dedication), on a named struct, a tuple struct or an enum with 1-2 variants (optional type_hint / rename / literal / pattern / ghost, with or without dedication); every member carries 0-3 instructions: a mapping of any of the 21 spellings (two in three drawn from the spellings related to the trait instructions by a change of fallibility or into <-> into_existing) with or without dedication, counterpart name / index and action, a ghost, a #[child], a #[parent] (bare, parameterised, nested typed / untyped), as_type, repeat / stop_repeat / skip_repeat. Same oracle and non-triviality rule as `wild`.".into()
    }
    fn cases(&self, tier: Tier) -> usize {
        match tier {
            Tier::Quick => 72_000,
            Tier::Thorough => 1_000_000,
        }
    }
    fn max_tape(&self) -> usize {
        160
    }
    fn run_case(&self, tape: &[u16], ctx: &Ctx) -> CaseReport {
        let mut t = Tape::new(tape);
        let (text, labels) = gen_lattice(&mut t);
        judge(text, labels, ctx)
    }
    fn run_text(&self, text: &str, ctx: &Ctx) -> Option<CaseReport> {
        Some(judge(text.to_string(), vec![], ctx))
    }
}
