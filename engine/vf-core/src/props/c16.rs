//! C16 — expansion never panics: every input yields impls or diagnostics.

use crate::gen::GenOpts;
use crate::runner::{CaseReport, Ctx, Part, Tier, Verdict};
use crate::tape::Tape;
use crate::wild::{gen_soup_item, gen_wild, wild_opts};
use crate::xp::{expand, panic_sig, Outcome, ROOT_ERR};
use serde_json::json;

pub struct Wild {
    opts: GenOpts,
}
pub struct Soup;
pub struct Valid {
    opts: GenOpts,
}

pub fn parts() -> Vec<Box<dyn Part>> {
    vec![Box::new(Wild { opts: wild_opts() }), Box::new(Soup), Box::new(Valid { opts: wild_opts() })]
}

pub fn judge(text: String, mut labels: Vec<String>, ctx: &Ctx) -> CaseReport {
    let out = expand(&text);
    labels.push(format!("outcome:{}", out.kind()));
    let reached_validate = match &out {
        Outcome::Ok(_) | Outcome::Panic(_) => true,
        Outcome::Err(m) => m.first().map_or(false, |x| x == ROOT_ERR),
        Outcome::NotAnItem(_) => false,
    };
    if reached_validate {
        labels.push("reached-validate".into());
    }
    let verdict = match &out {
        Outcome::Panic(m) => {
            let sig = panic_sig(m);
            ctx.fail_or_known("C16", Some(&sig), format!("derive panicked: {} [sig={}]", m, sig), json!({"input": text, "panic": m, "sig": sig}))
        }
        Outcome::NotAnItem(e) => Verdict::Discard(format!("not-an-item: {}", e.chars().take(40).collect::<String>())),
        _ => Verdict::Pass,
    };
    CaseReport { key: text, nontrivial: reached_validate, labels, verdict }
}

impl Part for Wild {
    fn name(&self) -> &'static str {
        "wild"
    }
    fn prop(&self) -> &'static str {
        "C16"
    }
    fn rule(&self) -> String {
        "L1 wild mode: a generated (mostly valid) struct/enum/union input plus 1-6 random mutations (wild instruction inserted at any level with typed or token-soup arguments, arguments of an existing instruction replaced, instruction copied to another site, attribute deleted, exotic field type, empty/union item, generics); oracle: catch_unwind(derive) is Ok or Err. Non-trivial = expansion got past attribute parsing (Ok, or Err led by the o2o root error), distinct by input text.".into()
    }
    fn cases(&self, tier: Tier) -> usize {
        match tier {
            Tier::Quick => 24_000,
            Tier::Thorough => 1_600_000,
        }
    }
    fn max_tape(&self) -> usize {
        320
    }
    fn run_case(&self, tape: &[u16], ctx: &Ctx) -> CaseReport {
        let mut t = Tape::new(tape);
        let (item, labels) = gen_wild(&mut t, &self.opts);
        judge(item.render(), labels, ctx)
    }
    fn run_text(&self, text: &str, ctx: &Ctx) -> Option<CaseReport> {
        Some(judge(text.to_string(), vec![], ctx))
    }
}

impl Part for Soup {
    fn name(&self) -> &'static str {
        "soup"
    }
    fn prop(&self) -> &'static str {
        "C16"
    }
    fn rule(&self) -> String {
        "L0 token soup: small struct/enum skeleton where every attribute (type, field, variant, payload field) is a random instruction name (52 names incl. unknown ones and foreign attrs) with no args, a typed argument from a 40-entry table, or a random balanced token tree (idents, keywords, all literal kinds containing @ and ~, lifetimes, joint punctuation, nested ()[]{}); 3/4 of inputs start with one parseable trait instruction. Same oracle and non-triviality rule as `wild`.".into()
    }
    fn cases(&self, tier: Tier) -> usize {
        match tier {
            Tier::Quick => 16_000,
            Tier::Thorough => 1_000_000,
        }
    }
    fn max_tape(&self) -> usize {
        256
    }
    fn run_case(&self, tape: &[u16], ctx: &Ctx) -> CaseReport {
        let mut t = Tape::new(tape);
        let (item, labels) = gen_soup_item(&mut t);
        judge(item.render(), labels, ctx)
    }
    fn run_text(&self, text: &str, ctx: &Ctx) -> Option<CaseReport> {
        Some(judge(text.to_string(), vec![], ctx))
    }
}

impl Part for Valid {
    fn name(&self) -> &'static str {
        "valid"
    }
    fn prop(&self) -> &'static str {
        "C16"
    }
    fn rule(&self) -> String {
        "L1 valid mode with every feature switched on (repeat, generics, into_existing on enums); no mutation. Same oracle.".into()
    }
    fn cases(&self, tier: Tier) -> usize {
        match tier {
            Tier::Quick => 8_000,
            Tier::Thorough => 400_000,
        }
    }
    fn max_tape(&self) -> usize {
        320
    }
    fn run_case(&self, tape: &[u16], ctx: &Ctx) -> CaseReport {
        let mut t = Tape::new(tape);
        let (item, labels) = crate::gen::gen_item(&mut t, &self.opts);
        judge(item.render(), labels, ctx)
    }
    fn run_text(&self, text: &str, ctx: &Ctx) -> Option<CaseReport> {
        Some(judge(text.to_string(), vec![], ctx))
    }
}
