//! C08 — trait-instruction params (vars, ..update, return, attributes) act as documented.

use crate::dsl::*;
use crate::e2::{CaseOutcome, E2Case, E2Part, Mode};
use crate::items::split_items;
use crate::runner::{CaseReport, Ctx, Part, Tier, Verdict};
use crate::tape::Tape;
use crate::xp::{expand_tokens, parse_input, Outcome};
use serde_json::json;
use std::fmt::Write;

// ------------------------------------------------------------------------------------------------
// E1 part: attribute / impl_attribute / inner_attribute placement
// ------------------------------------------------------------------------------------------------

pub struct AttrPlacement;

pub fn parts() -> Vec<Box<dyn Part>> {
    vec![Box::new(AttrPlacement)]
}

struct Want {
    ty: String,
    kinds: Vec<usize>,
    fallible: bool,
    attr: Option<String>,
    impl_attr: Option<String>,
    inner_attr: Option<String>,
    idx: usize,
}

impl Part for AttrPlacement {
    fn name(&self) -> &'static str {
        "attribute-placement"
    }
    fn prop(&self) -> &'static str {
        "C08"
    }
    fn rule(&self) -> String {
        "Struct or enum with 1-4 trait instructions (any of the 24 names, distinct counterpart types), each carrying a random-order subset of vars(..), attribute(..), impl_attribute(..), inner_attribute(..) with a marker unique to the instruction, optionally followed by ..update / return / _ => default; 1 in 3 enums give every Into-kind instruction a quick return and hold a #[pattern(_)] variant only From can render. Oracle (tokens): in every impl the instruction produces (2 or 4 for shortcuts) the attribute tokens sit directly before `fn`, the impl_attribute tokens directly before `impl`, the inner_attribute tokens as #![..] first inside the fn body — and no marker of another instruction occurs anywhere in that impl. Non-trivial = >= 2 params on one instruction, or a multi-impl shortcut carrying a param; distinct by input text.".into()
    }
    fn cases(&self, tier: Tier) -> usize {
        match tier {
            Tier::Quick => 72_000,
            Tier::Thorough => 1_200_000,
        }
    }
    fn max_tape(&self) -> usize {
        160
    }
    fn run_case(&self, tape: &[u16], ctx: &Ctx) -> CaseReport {
        let mut t = Tape::new(tape);
        let is_enum = t.chance(1, 3);
        let n = 1 + t.below(4);
        let mut wants: Vec<Want> = vec![];
        let mut attrs: Vec<Attr> = vec![];
        let mut labels = vec![if is_enum { "enum".to_string() } else { "struct".to_string() }];
        let mut nontrivial = false;
        // an enum whose Into instructions are all quick returns may hold a variant only From can render (#[pattern(_)]): the body such
        // a variant has no arm for is replaced anyway
        let returns_everywhere = is_enum && t.chance(1, 3);
        for i in 0..n {
            let mut name = t.pick(&TRAIT_NAMES).to_string();
            if is_enum && name.contains("existing") {
                name = name.replace("_existing", "").replace("owned_try_into", "owned_try_into").to_string();
            }
            let (kinds, fallible) = trait_name_cells(&name).unwrap();
            let ty = format!("T{}", i);
            let mut params: Vec<TParam> = vec![];
            let mut w = Want { ty: ty.clone(), kinds: kinds.clone(), fallible, attr: None, impl_attr: None, inner_attr: None, idx: i };
            if t.chance(1, 2) {
                let a = format!("cfg_attr(mk{}, inline)", i);
                params.push(TParam::Attribute(a.clone()));
                w.attr = Some(a);
            }
            if t.chance(1, 2) {
                let a = format!("cfg_attr(mk{}, allow(dead_code))", i);
                params.push(TParam::ImplAttribute(a.clone()));
                w.impl_attr = Some(a);
            }
            if t.chance(1, 2) {
                let a = format!("allow(unused_variables, mk{})", i);
                params.push(TParam::InnerAttribute(a.clone()));
                w.inner_attr = Some(a);
            }
            if t.chance(1, 3) {
                params.push(TParam::Vars(vec![(format!("v{}", i), format!("{}", i))]));
            }
            t.shuffle(&mut params);
            let np = params.len();
            let has_into_kind = kinds.iter().any(|k| *k == crate::dsl::OI || *k == crate::dsl::RI);
            match t.below(5) {
                _ if returns_everywhere && has_into_kind => params.push(TParam::Return(format!("make{}(@)", i))),
                0 if !name.contains("existing") && !is_enum => params.push(TParam::Update("Default::default()".into())),
                1 => params.push(TParam::Return(format!("make{}(@)", i))),
                2 if is_enum => params.push(TParam::DefaultCase("todo!()".into())),
                _ => {}
            }
            if np >= 2 || (np >= 1 && kinds.len() > 1) {
                nontrivial = true;
            }
            labels.push(format!("params:{}", np));
            if kinds.len() > 1 && np > 0 {
                labels.push("shortcut-with-param".into());
            }
            attrs.push(if t.chance(1, 4) { Attr::wrapped(vec![Instr::Trait(TraitInstr { name, ty, hint: None, err: if fallible { Some("E".into()) } else { None }, params })]) } else { Attr::bare(Instr::Trait(TraitInstr { name, ty, hint: None, err: if fallible { Some("E".into()) } else { None }, params })) });
            wants.push(w);
        }
        let body_kind = if is_enum { 0 } else { 1 + t.weighted(&[3, 2, 2]) };
        let body = match body_kind {
            0 => {
                let mut vs = vec![VariantDef { attrs: vec![], name: "V0".into(), shape: Shape::Unit, fields: vec![] }, VariantDef { attrs: vec![Attr::bare(Instr::Ghost { name: "ghost".into(), ded: None, action: None })], name: "G".into(), shape: Shape::Unit, fields: vec![] }];
                if returns_everywhere {
                    labels.push("from-only-variant-beside-quick-returns".into());
                    vs.push(VariantDef { attrs: vec![Attr::bare(Instr::Raw { name: "pattern".into(), args: Some("_".into()) })], name: "W".into(), shape: Shape::Unit, fields: vec![] });
                }
                Body::Enum(vs)
            }
            1 => Body::Struct(Shape::Named, vec![FieldDef { attrs: vec![], name: Some("a".into()), ty: "i32".into() }]),
            2 => {
                // a bare #[parent] member switches Into / IntoExisting to the post-init body: the attributes must still be there
                labels.push("bare-parent-member".into());
                Body::Struct(Shape::Named, vec![FieldDef { attrs: vec![], name: Some("a".into()), ty: "i32".into() }, FieldDef { attrs: vec![Attr::bare(Instr::Parent { ded: None, fields: None })], name: Some("p".into()), ty: "P".into() }])
            }
            _ => {
                // tuple struct facing `as {}`: instructions that carry `return expr` need no member names (the body is replaced)
                labels.push("tuple-as-struct-with-return".into());
                for a in attrs.iter_mut() {
                    if let Some(ins) = a.instrs_mut() {
                        for i in ins.iter_mut() {
                            if let Instr::Trait(tr) = i {
                                if tr.params.iter().any(|p| matches!(p, TParam::Return(_))) {
                                    tr.hint = Some(Hint::Struct);
                                } else {
                                    tr.params.retain(|p| !matches!(p, TParam::Update(_)));
                                }
                            }
                        }
                    }
                }
                Body::Struct(Shape::Tuple, vec![FieldDef { attrs: vec![], name: None, ty: "i32".into() }, FieldDef { attrs: vec![], name: None, ty: "i32".into() }])
            }
        };
        if body_kind == 2 {
            // ..update has no meaning in the post-init body (open finding of C17/C08): keep to the attribute parameters
            for a in attrs.iter_mut() {
                if let Some(ins) = a.instrs_mut() {
                    for i in ins.iter_mut() {
                        if let Instr::Trait(tr) = i {
                            tr.params.retain(|p| !matches!(p, TParam::Update(_) | TParam::Vars(_)));
                        }
                    }
                }
            }
        }
        let item = Item { attrs, name: "S".into(), generics: String::new(), where_clause: String::new(), body };
        let text = item.render();
        let di = match parse_input(&text) {
            Ok(d) => d,
            Err(e) => return CaseReport { key: text, nontrivial: false, labels, verdict: Verdict::Discard(format!("non-item: {}", e.chars().take(40).collect::<String>())) },
        };
        let ts = match expand_tokens(&di) {
            Ok(ts) => ts,
            Err(Outcome::Panic(m)) => return CaseReport { key: text.clone(), nontrivial, labels, verdict: ctx.fail_or_known("C08", Some("panic-is-C16"), format!("panic: {}", m), json!({"input": text})) },
            Err(o) => return CaseReport { key: text.clone(), nontrivial, labels, verdict: ctx.fail_or_known("C08", None, format!("valid parameter list rejected: {}", o.short()), json!({"input": text})) },
        };
        let items = match split_items(&ts) {
            Ok(i) => i,
            Err(e) => return CaseReport { key: text, nontrivial: false, labels, verdict: Verdict::Discard(format!("unsplittable (C17): {}", e.chars().take(40).collect::<String>())) },
        };
        let norm = |s: &str| crate::items::nospace(s);
        for w in &wants {
            let mine: Vec<_> = items.iter().filter(|it| it.key().map_or(false, |k| k.counterpart == w.ty) && it.fallible() == w.fallible).collect();
            if mine.len() != w.kinds.len() {
                return CaseReport { key: text.clone(), nontrivial, labels, verdict: ctx.fail_or_known("C08", None, format!("instruction for {} should produce {} impls, found {}", w.ty, w.kinds.len(), mine.len()), json!({"input": text})) };
            }
            for it in mine {
                let fail = |what: String| ctx.fail_or_known("C08", None, what, json!({"input": text, "impl": it.text}));
                let want_fn: Vec<String> = w.attr.iter().map(|a| norm(a)).collect();
                let got_fn: Vec<String> = it.fn_attrs.iter().map(|a| norm(a)).collect();
                if want_fn != got_fn {
                    return CaseReport { key: text.clone(), nontrivial, labels, verdict: fail(format!("attributes before `fn` are {:?}, expected {:?}", it.fn_attrs, w.attr)) };
                }
                let want_impl: Vec<String> = w.impl_attr.iter().map(|a| norm(a)).collect();
                let got_impl: Vec<String> = it.impl_attrs.iter().map(|a| norm(a)).collect();
                if want_impl != got_impl {
                    return CaseReport { key: text.clone(), nontrivial, labels, verdict: fail(format!("attributes before `impl` are {:?}, expected {:?}", it.impl_attrs, w.impl_attr)) };
                }
                let body = norm(&it.body.to_string());
                let starts_inner = body.starts_with("#![");
                match &w.inner_attr {
                    Some(a) => {
                        if !body.starts_with(&format!("#![{}]", norm(a))) {
                            return CaseReport { key: text.clone(), nontrivial, labels, verdict: fail(format!("fn body does not start with #![{}]", a)) };
                        }
                    }
                    None => {
                        if starts_inner {
                            return CaseReport { key: text.clone(), nontrivial, labels, verdict: fail("fn body starts with an inner attribute nobody asked for".into()) };
                        }
                    }
                }
                for other in &wants {
                    if other.idx != w.idx && it.text.split(|c: char| !(c.is_ascii_alphanumeric() || c == '_')).any(|x| x == format!("mk{}", other.idx)) {
                        return CaseReport { key: text.clone(), nontrivial, labels, verdict: fail(format!("marker mk{} of another instruction occurs in an impl for {}", other.idx, w.ty)) };
                    }
                }
            }
        }
        CaseReport { key: text, nontrivial, labels, verdict: Verdict::Pass }
    }
}

// ------------------------------------------------------------------------------------------------
// E2 part: vars evaluation order / scope, ..update, return
// ------------------------------------------------------------------------------------------------

pub struct Params;

#[derive(Clone, Copy, PartialEq, Debug)]
enum Tail {
    None,
    Update,
    Return,
}

fn gen_params_case(t: &mut Tape) -> E2Case {
    let mut labels: Vec<String> = vec![];
    let mut facts: Vec<String> = vec![];
    // groups: 0 = from (FO, FR), 1 = into-like (OI, RI, OIE, RIE)
    let mut cells = [[false; 6]; 2];
    let mut any = false;
    for group in [[FO, FR].as_slice(), [OI, RI].as_slice(), [OIE, RIE].as_slice()] {
        if !t.chance(4, 5) {
            continue;
        }
        let f = t.chance(1, 4) as usize;
        for k in group {
            if t.chance(3, 4) {
                cells[f][*k] = true;
                any = true;
            }
        }
    }
    if !any {
        cells[0][FO] = true;
    }
    let has = |k: usize| cells[0][k] || cells[1][k];
    let nv_from = t.weighted(&[1, 2, 2, 1]);
    let nv_into = t.weighted(&[1, 2, 2, 1]);
    // S { a, b, c, [gh] } <-> D { x (a), b, c, [dg via ghosts], [du unmentioned] }
    let s_ghost = t.chance(1, 3); // S-only member; without default when From carries ..update
    let d_extra = t.chance(1, 3); // D-only member; from ..update on Into, untouched by into_existing
    let bare_parent = t.chance(1, 6); // post-init body (README parent instructions) — vars must still be evaluated
    if bare_parent {
        labels.push("post-init-parent".into());
        facts.push("post-init-parent".into());
    }

    // ---- trait instructions ---------------------------------------------------------------------
    let var_list = |prefix: &str, n: usize, base: i64| -> Vec<(String, String)> { (0..n).map(|i| (format!("{}{}", prefix, i), if i == 0 { format!("log({})", base) } else { format!("log({}) + {}{}", base + i as i64, prefix, i - 1) })).collect() };
    let mut type_attrs = String::new();
    let mut tails: Vec<(usize, bool, Tail)> = vec![]; // per (kind, fallible)
    for f in 0..2 {
        for group in [[FO, FR].as_slice(), [OI, RI].as_slice(), [OIE, RIE].as_slice()] {
            let mut c = [false; 6];
            for k in group {
                c[*k] = cells[f][*k];
            }
            if !c.iter().any(|x| *x) {
                continue;
            }
            for name in crate::gen::cover_cells(t, c, f == 1) {
                let (ks, _) = trait_name_cells(&name).unwrap();
                let is_from = ks[0] == FO || ks[0] == FR;
                let is_ie = ks[0] == OIE || ks[0] == RIE;
                let mut params: Vec<TParam> = vec![];
                let nv = if is_from { nv_from } else { nv_into };
                if nv > 0 {
                    params.push(TParam::Vars(var_list(if is_from { "v" } else { "w" }, nv, if is_from { 1 } else { 5 })));
                }
                if t.chance(1, 4) {
                    params.push(TParam::Attribute("inline".into()));
                }
                t.shuffle(&mut params);
                let need_update = (is_from && s_ghost) || (!is_from && !is_ie && d_extra);
                let tail = if need_update {
                    Tail::Update
                } else if t.chance(1, 4) && !(bare_parent && !is_from) {
                    Tail::Return
                } else {
                    Tail::None
                };
                match tail {
                    Tail::Update => {
                        // the bindings are evaluated before the result is built, so the ..update expression may read them too
                        let base = if is_from { "upd_s()" } else { "upd_d()" };
                        params.push(TParam::Update(if nv > 0 && t.coin() { format!("keep({}, {}{})", base, if is_from { "v" } else { "w" }, nv - 1) } else { base.to_string() }));
                    }
                    Tail::Return => {
                        labels.push("return".into());
                        let v = if nv > 0 { format!("{}{}", if is_from { "v" } else { "w" }, nv - 1) } else { "0".to_string() };
                        // the expression replaces the whole body: a fallible From / Into body is a Result (into_existing assigns *other)
                        let e = if is_from { format!("ret_s(@.x, {})", v) } else { format!("ret_d(@.a, {})", v) };
                        params.push(TParam::Return(if f == 1 && !is_ie { format!("Ok({})", e) } else { e }));
                    }
                    Tail::None => {}
                }
                if tail == Tail::Update {
                    labels.push("update".into());
                }
                for k in &ks {
                    tails.push((*k, f == 1, tail));
                }
                let _ = write!(type_attrs, "#[{}(D{}{})]\n", name, if f == 1 { ", E" } else { "" }, if params.is_empty() { String::new() } else { format!("| {}", params.iter().map(|p| p.render()).collect::<Vec<_>>().join(", ")) });
            }
        }
    }
    if nv_from + nv_into > 0 {
        labels.push(format!("vars:{}", (nv_from + nv_into).min(6)));
    }
    // ---- member instructions --------------------------------------------------------------------
    let vsum = |prefix: &str, n: usize| -> String { (0..n).map(|i| format!(" + {}{}", prefix, i)).collect() };
    let from_a = format!("~ + log(10){}", vsum("v", nv_from));
    let into_a = format!("~ + log(20){}", vsum("w", nv_into));
    let from_b = format!("~ * 2 + log(11){}", if nv_from > 0 { " + v0".to_string() } else { String::new() });
    let into_b = format!("~ * 2 + log(21){}", if nv_into > 0 { " + w0".to_string() } else { String::new() });
    let mut fields_attr = format!("#[from(x, {})] #[into(x, {})] pub a: i64, #[from({})] #[into({})] pub b: i64, pub c: i64, ", from_a, into_a, from_b, into_b);
    let mut fields_plain = "pub a: i64, pub b: i64, pub c: i64, ".to_string();
    if s_ghost {
        fields_attr.push_str("#[ghost] pub gh: i64, ");
        fields_plain.push_str("pub gh: i64, ");
    }
    if bare_parent {
        fields_attr.push_str("#[parent] pub p: P, ");
        fields_plain.push_str("pub p: P, ");
    }
    let mut ghosts_attr = String::new();
    let has_into_like = has(OI) || has(RI) || has(OIE) || has(RIE);
    if has_into_like {
        // a D-only member provided by #[ghosts], reading a var
        let _ = write!(ghosts_attr, "#[ghosts(dg: {{ log(22){} }})]\n", if nv_into > 0 { format!(" + w{}", nv_into - 1) } else { String::new() });
    }
    let derive_input = format!("{}{}pub struct S {{ {} }}", type_attrs, ghosts_attr, fields_attr);

    // ---- harness --------------------------------------------------------------------------------
    let mut h = String::new();
    h.push_str("#[derive(Debug, Clone, PartialEq)] pub struct E(pub i64);\n");
    h.push_str("thread_local! { pub static TRACE: std::cell::RefCell<Vec<i64>> = std::cell::RefCell::new(Vec::new()); }\n");
    h.push_str("pub fn log(n: i64) -> i64 { TRACE.with(|t| t.borrow_mut().push(n)); n }\npub fn take_trace() -> Vec<i64> { TRACE.with(|t| std::mem::take(&mut *t.borrow_mut())) }\n");
    let _ = write!(h, "#[derive(Debug, Clone, PartialEq)] pub struct S {{ {} }}\n", fields_plain);
    let _ = write!(h, "#[derive(Debug, Clone, PartialEq, Default)] pub struct D {{ pub x: i64, pub b: i64, pub c: i64, pub dg: i64, {}{} }}\n", if d_extra { "pub du: i64, " } else { "" }, if bare_parent { "pub pm: i64, " } else { "" });
    if bare_parent {
        h.push_str("#[allow(unused_imports)] use o2o::traits::{IntoExisting, TryIntoExisting};\n#[derive(Debug, Clone, PartialEq, Default)] pub struct P { pub pm: i64 }\n");
    }
    h.push_str("pub fn keep<T>(x: T, _v: i64) -> T { x }\n");
    let _ = write!(h, "pub fn upd_s() -> S {{ S {{ a: -1, b: -2, c: -3, {}{} }} }}\n", if s_ghost { "gh: -4, " } else { "" }, if bare_parent { "p: P { pm: -5 }, " } else { "" });
    let _ = write!(h, "pub fn upd_d() -> D {{ D {{ x: -11, b: -12, c: -13, dg: -14, {}{} }} }}\n", if d_extra { "du: -15, " } else { "" }, if bare_parent { "pm: -16, " } else { "" });
    let _ = write!(h, "pub fn ret_s(p: i64, q: i64) -> S {{ S {{ a: p + 100, b: q + 200, c: 300, {}{} }} }}\n", if s_ghost { "gh: 400, " } else { "" }, if bare_parent { "p: P { pm: 500 }, " } else { "" });
    let _ = write!(h, "pub fn ret_d(p: i64, q: i64) -> D {{ D {{ x: p + 100, b: q + 200, c: 300, dg: 400, {}{} }} }}\n", if d_extra { "du: 500, " } else { "" }, if bare_parent { "pm: 600, " } else { "" });
    let _ = write!(h, "pub fn mk_s() -> S {{ S {{ a: 1000, b: 2000, c: 3000, {}{} }} }}\n", if s_ghost { "gh: 4000, " } else { "" }, if bare_parent { "p: P { pm: 5000 }, " } else { "" });
    let _ = write!(h, "pub fn mk_d() -> D {{ D {{ x: 6000, b: 7000, c: 8000, dg: 9000, {}{} }} }}\n", if d_extra { "du: 9100, " } else { "" }, if bare_parent { "pm: 9200, " } else { "" });
    // values of the vars: v_i = (1 + i) + v_{i-1}
    let var_vals = |n: usize, base: i64| -> Vec<i64> {
        let mut v = vec![];
        for i in 0..n {
            let prev = if i == 0 { 0 } else { v[i - 1] };
            v.push(base + i as i64 + prev);
        }
        v
    };
    let (vf, vi) = (var_vals(nv_from, 1), var_vals(nv_into, 5));
    let sum = |v: &Vec<i64>| v.iter().sum::<i64>();
    let first = |v: &Vec<i64>| v.first().copied().unwrap_or(0);
    let last = |v: &Vec<i64>| v.last().copied().unwrap_or(0);

    // ---- run ------------------------------------------------------------------------------------
    let mut r = String::new();
    r.push_str("fn chk<T: core::fmt::Debug + PartialEq>(out: &mut Vec<String>, fl: &str, got: &T, want: &T) { if got == want { out.push(format!(\"{} OK\", fl)); } else { out.push(format!(\"{} MISMATCH got={:?} want={:?}\", fl, got, want)); } }\n");
    // trace rule: the vars' markers first, in declaration order, each once; then the member markers (any order), each once
    r.push_str("fn trace_ok(tr: &[i64], vars: &[i64], members: &[i64]) -> bool { if tr.len() != vars.len() + members.len() { return false; } if &tr[..vars.len()] != vars { return false; } let mut rest: Vec<i64> = tr[vars.len()..].to_vec(); rest.sort(); let mut m = members.to_vec(); m.sort(); rest == m }\n");
    r.push_str("pub fn run(out: &mut Vec<String>) {\n");
    let p_from = if bare_parent { "p: P { pm: 9200 }, " } else { "" };
    for (k, f, tail) in &tails {
        let (k, f, tail) = (*k, *f, *tail);
        let fl = basic_name(k, f);
        let is_from = k == FO || k == FR;
        let vars_markers: Vec<i64> = if is_from { (0..nv_from).map(|i| 1 + i as i64).collect() } else { (0..nv_into).map(|i| 5 + i as i64).collect() };
        let member_markers: Vec<i64> = match (tail, is_from) {
            (Tail::Return, _) => vec![],
            (_, true) => vec![10, 11],
            (_, false) => vec![20, 21, 22],
        };
        // expected value
        let want = match (is_from, tail) {
            (true, Tail::Return) => format!("ret_s(6000, {})", last(&vf)),
            (true, _) => format!("S {{ a: 6000 + 10 + {}, b: 7000 * 2 + 11 + {}, c: 8000, {}{} }}", sum(&vf), first(&vf), if s_ghost { "gh: -4, " } else { "" }, p_from),
            (false, Tail::Return) => format!("ret_d(1000, {})", last(&vi)),
            (false, _) => {
                let is_ie = k == OIE || k == RIE;
                let du = if d_extra { if is_ie { "du: -15, " } else { "du: -15, " } } else { "" };
                let pm = if bare_parent { "pm: 5000, " } else { "" };
                format!("D {{ x: 1000 + 20 + {}, b: 2000 * 2 + 21 + {}, c: 3000, dg: 22 + {}, {}{} }}", sum(&vi), first(&vi), last(&vi), du, pm)
            }
        };
        let call = match (k, f) {
            (FO, false) => "let got: S = ::core::convert::From::from(mk_d());".to_string(),
            (FR, false) => "let src = mk_d(); let got: S = ::core::convert::From::from(&src);".to_string(),
            (FO, true) => "let got: S = <S as ::core::convert::TryFrom<D>>::try_from(mk_d()).unwrap();".to_string(),
            (FR, true) => "let src = mk_d(); let got: S = <S as ::core::convert::TryFrom<&D>>::try_from(&src).unwrap();".to_string(),
            (OI, false) => "let got: D = ::core::convert::Into::into(mk_s());".to_string(),
            (RI, false) => "let src = mk_s(); let got: D = ::core::convert::Into::into(&src);".to_string(),
            (OI, true) => "let got: D = <S as ::core::convert::TryInto<D>>::try_into(mk_s()).unwrap();".to_string(),
            (RI, true) => "let src = mk_s(); let got: D = <&S as ::core::convert::TryInto<D>>::try_into(&src).unwrap();".to_string(),
            (OIE, false) => "let mut got = upd_d(); o2o::traits::IntoExisting::into_existing(mk_s(), &mut got);".to_string(),
            (RIE, false) => "let src = mk_s(); let mut got = upd_d(); o2o::traits::IntoExisting::into_existing(&src, &mut got);".to_string(),
            (OIE, true) => "let mut got = upd_d(); o2o::traits::TryIntoExisting::try_into_existing(mk_s(), &mut got).unwrap();".to_string(),
            (RIE, true) => "let src = mk_s(); let mut got = upd_d(); o2o::traits::TryIntoExisting::try_into_existing(&src, &mut got).unwrap();".to_string(),
            _ => unreachable!(),
        };
        let _ = write!(r, "    {{ let _ = take_trace(); {} let tr = take_trace(); let want = {}; chk(out, \"{}:value\", &got, &want); let ok = trace_ok(&tr, &{:?}, &{:?}); chk(out, \"{}:trace\", &(ok, tr.clone()), &(true, tr)); }}\n", call, want, fl, vars_markers, member_markers, fl);
    }
    r.push_str("}\n");
    let nparams_max = 2; // vars + tail
    let _ = nparams_max;
    let nontrivial = (nv_from + nv_into >= 1 && labels.iter().any(|l| l == "update" || l == "return")) || nv_from + nv_into >= 3;
    // the type of the bare #[parent] member needs the conversions the generated bodies call: (try_)from_ref for S's From kinds,
    // (try_)into_existing for S's Into / IntoExisting kinds, fallible where S's are
    let p_derive = {
        let mut a = String::new();
        if cells[1][FO] || cells[1][FR] {
            a.push_str("#[try_from_ref(D, E)]\n");
        } else {
            a.push_str("#[from_ref(D)]\n");
        }
        if cells[0][OI] || cells[0][RI] || cells[0][OIE] || cells[0][RIE] || !(cells[1][OI] || cells[1][RI] || cells[1][OIE] || cells[1][RIE]) {
            a.push_str("#[into_existing(D)]\n");
        }
        if cells[1][OI] || cells[1][RI] || cells[1][OIE] || cells[1][RIE] {
            a.push_str("#[try_into_existing(D, E)]\n");
        }
        format!("{}pub struct P {{ pub pm: i64 }}", a)
    };
    E2Case { harness_src: h, derives: if bare_parent { vec![derive_input.clone(), p_derive] } else { vec![derive_input.clone()] }, run_src: r, key: derive_input, labels, nontrivial, facts }
}

impl E2Part for Params {
    fn name(&self) -> &'static str {
        "params"
    }
    fn prop(&self) -> &'static str {
        "C08"
    }
    fn rule(&self) -> String {
        "Named struct S {a, b, c [, ghost member] [, bare #[parent] member]} <-> D {x, b, c, dg [, du]}; every requested kind (exact cover of a random subset of the 12 kinds, one fallibility per direction group) carries vars(..) with 0-3 bindings whose initialisers call log(n) on a thread-local trace and use the earlier bindings, in random order with attribute(..), followed by nothing, ..upd() (where S / D has a member no instruction provides) or `return expr` using the last binding; member expressions and a #[ghosts] entry call log(m) and read the bindings. Oracle: the returned value equals the value computed from the plan (mapped members from the instructions, all others from upd(); `return expr` replaces the body, for into_existing *other equals it), and the trace consists of the bindings' markers first, in declaration order, each exactly once, followed by exactly the member markers. Non-trivial = vars together with ..update or return, or >= 3 bindings; distinct by derive-input text.".into()
    }
    fn cases(&self, tier: Tier) -> usize {
        match tier {
            Tier::Quick => 2_400,
            Tier::Thorough => 24_000,
        }
    }
    fn mode(&self) -> Mode {
        Mode::Run
    }
    fn gen(&self, tape: &[u16]) -> E2Case {
        let mut t = Tape::new(tape);
        gen_params_case(&mut t)
    }
    fn sig(&self, case: &E2Case, outcome: &CaseOutcome) -> Option<String> {
        let has = |f: &str| case.facts.iter().any(|x| x == f);
        match outcome {
            CaseOutcome::Rejected(m) if m.contains("panic") => Some("panic-is-C16".into()),
            // vars(..) are not emitted when a bare #[parent] switches Into to the post-init body
            CaseOutcome::CompileFail { .. } | CaseOutcome::Mismatch { .. } if has("post-init-parent") => Some("post-init-body-drops-vars-and-params".into()),
            _ => None,
        }
    }
}

pub fn e2_parts() -> Vec<Box<dyn E2Part>> {
    vec![Box::new(Params)]
}
