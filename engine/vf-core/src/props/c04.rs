//! C04 — each trait instruction yields exactly the documented set of trait impls.

use crate::dsl::*;
use crate::gen::cover_cells;
use crate::items::{nospace, split_items, strip_ref};
use crate::runner::{CaseReport, Ctx, Part, Tier, Verdict};
use crate::tape::Tape;
use crate::xp::{expand_tokens, parse_input, Outcome};
use serde_json::json;
use std::collections::BTreeMap;

pub struct Table;

pub fn parts() -> Vec<Box<dyn Part>> {
    vec![Box::new(Table)]
}

const TY_FORMS: [&str; 10] = ["D", "A", "B", "a::b::D", "D<u8>", "D::<T>", "D<'a, T>", "(i32, String)", "a::b::G<u8>", "m::L<'a, T>"];
const ERR_FORMS: [&str; 5] = ["E", "a::E", "E<T>", "a::E<u8, T>", "std::num::ParseIntError"];

/// One predicted impl header.
#[derive(Clone, Debug, PartialEq, Eq, PartialOrd, Ord)]
pub struct Header {
    pub trait_path: String,
    pub trait_arg: String,
    pub self_ty: String,
    pub method: String,
    pub error: Option<String>,
}

fn norm(s: &str) -> String {
    nospace(s)
}

/// Prediction from the README table (lines 190-264): kind cell -> header.
pub fn predict(kind: usize, fallible: bool, ty: &str, err: Option<&str>, self_ty: &str) -> Header {
    let (trait_path, method, from, by_ref) = match (kind, fallible) {
        (FO, false) => ("::core::convert::From", "from", true, false),
        (FR, false) => ("::core::convert::From", "from", true, true),
        (FO, true) => ("::core::convert::TryFrom", "try_from", true, false),
        (FR, true) => ("::core::convert::TryFrom", "try_from", true, true),
        (OI, false) => ("::core::convert::Into", "into", false, false),
        (RI, false) => ("::core::convert::Into", "into", false, true),
        (OI, true) => ("::core::convert::TryInto", "try_into", false, false),
        (RI, true) => ("::core::convert::TryInto", "try_into", false, true),
        (OIE, false) => ("o2o::traits::IntoExisting", "into_existing", false, false),
        (RIE, false) => ("o2o::traits::IntoExisting", "into_existing", false, true),
        (OIE, true) => ("o2o::traits::TryIntoExisting", "try_into_existing", false, false),
        (RIE, true) => ("o2o::traits::TryIntoExisting", "try_into_existing", false, true),
        _ => unreachable!(),
    };
    // the reference marker (`&`, possibly with the fresh 'o2o lifetime) is normalised to `&`
    let (arg, slf) = if from { (format!("{}{}", if by_ref { "&" } else { "" }, norm(ty)), norm(self_ty)) } else { (norm(ty), format!("{}{}", if by_ref { "&" } else { "" }, norm(self_ty))) };
    Header { trait_path: trait_path.into(), trait_arg: arg, self_ty: slf, method: method.into(), error: if fallible { err.map(norm) } else { None } }
}

fn observed(ts: &proc_macro2::TokenStream) -> Result<Vec<Header>, String> {
    let items = split_items(ts)?;
    let mut out = vec![];
    for it in items {
        if it.fn_count != 1 {
            return Err(format!("impl with {} methods: {}", it.fn_count, it.text));
        }
        let (r1, arg) = strip_ref(&it.trait_arg);
        let (r2, slf) = strip_ref(&it.self_ty);
        out.push(Header {
            trait_path: norm(&it.trait_path),
            trait_arg: format!("{}{}", if r1 { "&" } else { "" }, norm(&arg)),
            self_ty: format!("{}{}", if r2 { "&" } else { "" }, norm(&slf)),
            method: it.fn_name.clone(),
            error: it.assoc_error.as_ref().map(|e| norm(e)),
        });
    }
    Ok(out)
}

fn multiset(v: &[Header]) -> BTreeMap<Header, usize> {
    let mut m = BTreeMap::new();
    for h in v {
        *m.entry(h.clone()).or_insert(0) += 1;
    }
    m
}

pub struct Gen {
    pub item: Item,
    pub expected: Vec<Header>,
    pub labels: Vec<String>,
    pub nontrivial: bool,
    pub generic_err: bool,
}

pub fn gen(t: &mut Tape) -> Gen {
    let mut labels = vec![];
    let is_enum = t.chance(1, 3);
    let (generics, self_ty) = match t.below(5) {
        0 => ("<T>", "S<T>"),
        1 => ("<'a, T>", "S<'a, T>"),
        _ => ("", "S"),
    };
    let ncp = 1 + t.weighted(&[4, 3, 2, 1]);
    let mut tys: Vec<String> = vec![];
    for _ in 0..ncp {
        let mut idx = if t.chance(1, 2) { t.below(3) } else { t.below(TY_FORMS.len()) };
        while tys.contains(&TY_FORMS[idx].to_string()) || (is_enum && TY_FORMS[idx].starts_with('(')) {
            idx = (idx + 1) % TY_FORMS.len();
        }
        tys.push(TY_FORMS[idx].to_string());
    }
    let mut instrs: Vec<TraitInstr> = vec![];
    let mut expected: Vec<Header> = vec![];
    let mut shortcut = false;
    let mut generic_err = false;
    let mut plain = true;
    for ty in &tys {
        if !["D", "A", "B"].contains(&ty.as_str()) {
            plain = false;
            labels.push(format!("type-form:{}", ty));
        }
        let fmode = t.weighted(&[4, 2, 2]);
        for f in 0..2 {
            if (fmode == 0 && f == 1) || (fmode == 1 && f == 0) {
                continue;
            }
            let mut cells = [false; 6];
            // into_existing on an enum is only expandable with a quick return (`return expr` replaces the body)
            let enum_ie = is_enum && t.chance(1, 4);
            let kmax = if is_enum && !enum_ie { 4 } else { 6 };
            for k in 0..kmax {
                cells[k] = t.chance(1, 2);
            }
            if !cells.iter().any(|x| *x) {
                cells[t.below(kmax)] = true;
            }
            for name in cover_cells(t, cells, f == 1) {
                let err = if f == 1 { Some(t.pick(&ERR_FORMS).to_string()) } else { None };
                if let Some(e) = &err {
                    if e.contains('<') {
                        generic_err = true;
                        labels.push("error-type:generic".into());
                    }
                }
                let (ks, _) = trait_name_cells(&name).unwrap();
                if ks.len() > 1 {
                    shortcut = true;
                }
                labels.push(format!("instr:{}", name));
                for k in ks {
                    expected.push(predict(k, f == 1, ty, err.as_deref(), self_ty));
                }
                let ie = ks_has_ie(&name);
                let params = if (is_enum && ie) || t.chance(1, 10) {
                    labels.push(if is_enum && ie { "enum-into-existing+return".into() } else { "quick-return".into() });
                    vec![TParam::Return("make(@)".into())]
                } else {
                    vec![]
                };
                instrs.push(TraitInstr { name, ty: ty.clone(), hint: None, err, params });
            }
        }
    }
    t.shuffle(&mut instrs);
    let nontrivial = (instrs.len() >= 2 && shortcut) || tys.len() >= 2 || !plain;
    labels.push(format!("counterparts:{}", tys.len()));
    labels.push(if is_enum { "enum".into() } else { "struct".into() });
    let attrs: Vec<Attr> = instrs.into_iter().map(|i| if t.chance(1, 4) { Attr::wrapped(vec![Instr::Trait(i)]) } else { Attr::bare(Instr::Trait(i)) }).collect();
    let body = if is_enum {
        Body::Enum(vec![VariantDef { attrs: vec![], name: "V0".into(), shape: Shape::Unit, fields: vec![] }, VariantDef { attrs: vec![], name: "V1".into(), shape: Shape::Tuple, fields: vec![FieldDef { attrs: vec![], name: None, ty: "i32".into() }] }])
    } else {
        match t.below(3) {
            0 => Body::Struct(Shape::Named, vec![FieldDef { attrs: vec![], name: Some("a".into()), ty: "i32".into() }]),
            1 => Body::Struct(Shape::Tuple, vec![FieldDef { attrs: vec![], name: None, ty: "i32".into() }]),
            _ => Body::Struct(Shape::Unit, vec![]),
        }
    };
    Gen { item: Item { attrs, name: "S".into(), generics: generics.into(), where_clause: String::new(), body }, expected, labels, nontrivial, generic_err }
}

fn ks_has_ie(name: &str) -> bool {
    trait_name_cells(name).map_or(false, |(ks, _)| ks.iter().any(|k| *k == 4 || *k == 5))
}

fn diff(exp: &BTreeMap<Header, usize>, got: &BTreeMap<Header, usize>) -> (Vec<Header>, Vec<Header>) {
    let mut missing = vec![];
    let mut extra = vec![];
    for (h, n) in exp {
        if got.get(h).copied().unwrap_or(0) < *n {
            missing.push(h.clone());
        }
    }
    for (h, n) in got {
        if exp.get(h).copied().unwrap_or(0) < *n {
            extra.push(h.clone());
        }
    }
    (missing, extra)
}

impl Part for Table {
    fn name(&self) -> &'static str {
        "table"
    }
    fn prop(&self) -> &'static str {
        "C04"
    }
    fn rule(&self) -> String {
        "Struct (named/tuple/unit) or enum S (optionally <T> / <'a, T>), 1-4 counterparts drawn from 8 type forms (plain, qualified, generic, turbofish, lifetime+generic, bare tuple) and, for try_ names, 5 error-type forms (incl. generic ones); the instruction list is an exact cover of a random set of (kind, fallibility) cells per counterpart by the 24 names, in random order and spelling. Oracle 1: the multiset of impl headers read by the item splitter (trait path, T vs &T placement, self type, method name, `type Error` tokens) equals the prediction of a table transcribed from the README. Oracle 2 (metamorphic): a random permutation of the instructions yields the same multiset. Non-trivial = (>= 2 instructions and a shortcut) or >= 2 counterparts or a non-plain type form; distinct by input text.".into()
    }
    fn cases(&self, tier: Tier) -> usize {
        match tier {
            Tier::Quick => 96_000,
            Tier::Thorough => 1_600_000,
        }
    }
    fn max_tape(&self) -> usize {
        160
    }
    fn run_case(&self, tape: &[u16], ctx: &Ctx) -> CaseReport {
        let mut t = Tape::new(tape);
        let g = gen(&mut t);
        let text = g.item.render();
        let labels = g.labels.clone();
        let di = match parse_input(&text) {
            Ok(d) => d,
            Err(e) => return CaseReport { key: text, nontrivial: false, labels, verdict: Verdict::Discard(format!("non-item: {}", e.chars().take(50).collect::<String>())) },
        };
        let ts = match expand_tokens(&di) {
            Ok(ts) => ts,
            Err(Outcome::Panic(m)) => {
                return CaseReport { key: text.clone(), nontrivial: g.nontrivial, labels, verdict: ctx.fail_or_known("C04", Some("panic-is-C16"), format!("valid trait-instruction set panics: {}", m), json!({"input": text})) }
            }
            Err(o) => {
                return CaseReport { key: text.clone(), nontrivial: g.nontrivial, labels, verdict: ctx.fail_or_known("C04", None, format!("valid trait-instruction set is rejected: {}", o.short()), json!({"input": text, "outcome": o.short()})) }
            }
        };
        let got = match observed(&ts) {
            Ok(g) => g,
            Err(e) => return CaseReport { key: text.clone(), nontrivial: g.nontrivial, labels, verdict: ctx.fail_or_known("C04", None, format!("output is not a sequence of impls: {}", e), json!({"input": text, "output": ts.to_string()})) },
        };
        let (missing, extra) = diff(&multiset(&g.expected), &multiset(&got));
        if !missing.is_empty() || !extra.is_empty() {
            // signature: the only difference is a generic error type losing its arguments
            let only_err_generics = missing.len() == extra.len()
                && missing.iter().all(|m| {
                    extra.iter().any(|x| {
                        x.trait_path == m.trait_path && x.trait_arg == m.trait_arg && x.self_ty == m.self_ty && x.method == m.method && match (&m.error, &x.error) {
                            (Some(me), Some(xe)) => me.contains('<') && me.split('<').next() == Some(xe.as_str()),
                            _ => false,
                        }
                    })
                });
            let sig = if only_err_generics { Some("error-type-generics-dropped") } else { None };
            let verdict = ctx.fail_or_known(
                "C04",
                sig,
                format!("impl set differs from the documented table: missing {:?}; extra {:?}", missing, extra),
                json!({"input": text, "missing": format!("{:?}", missing), "extra": format!("{:?}", extra), "output": ts.to_string()}),
            );
            return CaseReport { key: text, nontrivial: g.nontrivial, labels, verdict };
        }
        // metamorphic: permute the instructions
        let mut perm = g.item.clone();
        t.shuffle(&mut perm.attrs);
        let ptext = perm.render();
        if ptext != text {
            if let Ok(pdi) = parse_input(&ptext) {
                match expand_tokens(&pdi).ok().and_then(|pts| observed(&pts).ok()) {
                    Some(pgot) => {
                        if multiset(&pgot) != multiset(&got) {
                            let (m, x) = diff(&multiset(&got), &multiset(&pgot));
                            return CaseReport { key: text.clone(), nontrivial: g.nontrivial, labels, verdict: ctx.fail_or_known("C04", None, format!("impl set depends on instruction order: after permutation missing {:?}, extra {:?}", m, x), json!({"input": text, "permuted": ptext})) };
                        }
                    }
                    None => {
                        return CaseReport { key: text.clone(), nontrivial: g.nontrivial, labels, verdict: ctx.fail_or_known("C04", None, "permuted instruction order is rejected".into(), json!({"input": text, "permuted": ptext})) };
                    }
                }
            }
        }
        CaseReport { key: text, nontrivial: g.nontrivial, labels, verdict: Verdict::Pass }
    }
}
