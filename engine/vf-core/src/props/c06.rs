//! C06 — impls for one counterpart type are independent of the other counterparts.

use crate::dsl::*;
use crate::gen::{gen_item, GenOpts};
use crate::items::nospace;
use crate::props::util::*;
use crate::runner::{CaseReport, Ctx, Part, Tier, Verdict};
use crate::tape::Tape;
use serde_json::json;

pub struct Projection {
    name: &'static str,
    opts: GenOpts,
}

pub fn parts() -> Vec<Box<dyn Part>> {
    vec![
        Box::new(Projection { name: "projection", opts: GenOpts { min_cp: 2, max_cp: 3, allow_repeat: false, allow_generics: true, ..GenOpts::default() } }),
        // member-level repeat blocks on top (seeded change C06-9): a repeated instruction reaches the following members for every
        // counterpart it concerns, whatever instructions dedicated to other counterparts those members carry. Trait-level
        // repeat() stays out: it deliberately makes one counterpart's params depend on another's instruction.
        Box::new(Projection { name: "projection-repeat", opts: GenOpts { min_cp: 2, max_cp: 3, allow_repeat: false, member_repeat_only: true, repeat_heavy: true, allow_generics: false, ..GenOpts::default() } }),
    ]
}

/// Remove every trait instruction for a counterpart other than `keep` and every instruction dedicated to another one.
pub fn project(item: &Item, keep: &str) -> (Item, usize, usize) {
    let mut out = item.clone();
    let mut removed_trait = 0;
    let mut removed_ded = 0;
    out.for_each_attr_list_mut(&mut |_, list| {
        for a in list.iter_mut() {
            if let Some(ins) = a.instrs_mut() {
                ins.retain(|i| match i {
                    Instr::Trait(t) => {
                        if t.ty != keep {
                            removed_trait += 1;
                            false
                        } else {
                            true
                        }
                    }
                    other => match other.ded() {
                        Some(d) if d != keep => {
                            removed_ded += 1;
                            false
                        }
                        _ => true,
                    },
                });
            }
        }
        list.retain(|a| !matches!(a, Attr::O2o { instrs, .. } if instrs.is_empty()));
    });
    (out, removed_trait, removed_ded)
}

impl Part for Projection {
    fn name(&self) -> &'static str {
        self.name
    }
    fn prop(&self) -> &'static str {
        "C06"
    }
    fn rule(&self) -> String {
        "Valid-mode L1 inputs (structs with ghosts / child / child_parents / parent / where_clause, enums with type_hint / ghosts / literal / pattern) mapped to 2-3 counterparts, every instruction kind in default and dedicated form; part `projection` without repeat, part `projection-repeat` with member-level repeat / skip_repeat / stop_repeat blocks (no trait-level repeat()). Oracle (projection): for a random counterpart A, proj_A removes every trait instruction for another counterpart and every instruction dedicated to another counterpart; the impls keyed to A in derive(input) must equal, as a multiset of token strings, the impls of derive(proj_A(input)) (compared when both are accepted; in part `projection` a derive(input) that is rejected while derive(proj_A(input)) is accepted is a violation too - its inputs are valid by construction -, in part `projection-repeat` that case is not judged, because a repeated instruction meeting a written one is a duplicate of the user's making). Non-trivial = both accepted and >= 1 instruction dedicated to a counterpart other than A was removed; distinct by input text.".into()
    }
    fn cases(&self, tier: Tier) -> usize {
        match tier {
            Tier::Quick => if self.name == "projection" { 72_000 } else { 48_000 },
            Tier::Thorough => if self.name == "projection" { 1_200_000 } else { 800_000 },
        }
    }
    fn max_tape(&self) -> usize {
        320
    }
    fn run_case(&self, tape: &[u16], ctx: &Ctx) -> CaseReport {
        let mut t = Tape::new(tape);
        let (item, mut labels) = gen_item(&mut t, &self.opts);
        let text = item.render();
        let mut tys: Vec<String> = vec![];
        for tr in item.trait_instrs() {
            if !tys.contains(&tr.ty) {
                tys.push(tr.ty.clone());
            }
        }
        if tys.len() < 2 {
            return CaseReport { key: text, nontrivial: false, labels, verdict: Verdict::Discard("fewer than two counterparts".into()) };
        }
        let keep = t.pick(&tys).clone();
        let (proj, rt, rd) = project(&item, &keep);
        let ptext = proj.render();
        let full = expand_items(&text);
        let part = expand_items(&ptext);
        let (fi, pi) = match (&full, &part) {
            (Exp::Ok { items: a, .. }, Exp::Ok { items: b, .. }) => (a, b),
            // the instructions that concern only the other counterparts make the whole derive fail: the impls for this
            // counterpart are then not the ones its own instructions generate
            // with repeat blocks on top the input is no longer valid by construction (a repeated instruction meeting a written one
            // is a duplicate the user wrote, and is reported as such): a rejection of the whole input is not judged there
            (Exp::Other(crate::xp::Outcome::Err(_)), Exp::Ok { .. }) if self.opts.member_repeat_only => {
                labels.push("rejected-with-others-present(not judged under repeat)".into());
                return CaseReport { key: text, nontrivial: false, labels, verdict: Verdict::Pass };
            }
            (Exp::Other(crate::xp::Outcome::Err(msgs)), Exp::Ok { .. }) => {
                labels.push("rejected-only-with-others-present".into());
                return CaseReport {
                    key: text.clone(),
                    nontrivial: rd > 0 && rt > 0,
                    labels,
                    verdict: ctx.fail_or_known("C06", None, format!("the derive is rejected ({}) although the instructions concerning counterpart {} alone are accepted", msgs.iter().skip(1).take(2).cloned().collect::<Vec<_>>().join("; "), keep), json!({"input": text, "projected": ptext, "counterpart": keep, "diagnostics": msgs})),
                };
            }
            _ => {
                labels.push("not-both-accepted".into());
                return CaseReport { key: text, nontrivial: false, labels, verdict: Verdict::Pass };
            }
        };
        labels.push("both-accepted".into());
        if rd > 0 {
            labels.push("removed-dedicated".into());
        }
        let want = nospace(&keep);
        let mine: Vec<_> = fi.iter().filter(|i| i.key().map_or(false, |k| nospace(&k.counterpart) == want)).cloned().collect();
        let nontrivial = rd > 0 && rt > 0;
        let (a, b) = (item_multiset(&mine), item_multiset(pi));
        let verdict = match multiset_diff(&a, &b) {
            None => Verdict::Pass,
            Some((only_full, only_proj)) => {
                let sig = if item.is_enum() && text.contains("ghosts") { Some("enum-ghosts-ignore-dedication") } else { None };
                ctx.fail_or_known(
                    "C06",
                    sig,
                    format!("impls for counterpart {} change when instructions concerning other counterparts are removed", keep),
                    json!({"input": text, "projected": ptext, "counterpart": keep, "only_with_others_present": only_full, "only_in_projection": only_proj}),
                )
            }
        };
        CaseReport { key: format!("{}\n// project onto {}", text, keep), nontrivial, labels, verdict }
    }
}
