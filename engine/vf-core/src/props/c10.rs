//! C10 — `@` and `~` are substituted everywhere; all other user tokens pass through.

use crate::dsl::*;
use crate::items::{contains_subseq, flat, split_items, ImplItem};
use crate::runner::{CaseReport, Ctx, Part, Tier, Verdict};
use crate::tape::Tape;
use crate::xp::{expand_tokens, parse_input, Outcome};
use serde_json::json;

pub struct Subst;

pub fn parts() -> Vec<Box<dyn Part>> {
    vec![Box::new(Subst)]
}

const IDENTS: [&str; 16] = ["a", "x", "foo", "Some", "Vec", "self_", "r#type", "u8", "as", "let", "mut", "move", "if", "else", "match", "ref"];
const LITS: [&str; 14] = ["0", "1u8", "2.5", "\"~@\"", "\"x\"", "'~'", "'@'", "r#\"@~\"#", "b\"~\"", "0x7E", "1e3", "true", "b'@'", "\"\\u{40}\""];
const PUNCTS: [&str; 30] = ["+", "-", "*", "/", "&", "&&", "||", "!", "?", ";", ",", ".", "..", "..=", "=>", "->", "::", "=", "==", "<", ">", "<=", ">=", "%", "^", "<<", "+=", "|", "#", "'a"];

#[derive(Default)]
struct SoupStats {
    placeholders: usize,
    deep_placeholders: usize,
    lit_with_marker: usize,
    max_depth: usize,
    tokens: usize,
}

/// Token tree usable as an inline expression body: any nesting of groups, literals containing the two characters,
/// lifetimes, joint punctuation, macro calls, closures, turbofish.
fn soup(t: &mut Tape, depth: usize, budget: &mut usize, tilde_ok: bool, st: &mut SoupStats) -> String {
    let n = 1 + t.below(6);
    let mut out: Vec<String> = vec![];
    for _ in 0..n {
        if *budget == 0 {
            break;
        }
        *budget -= 1;
        st.tokens += 1;
        st.max_depth = st.max_depth.max(depth);
        match t.weighted(&[4, 3, 4, 4, if depth < 5 { 4 } else { 0 }, 2]) {
            0 => out.push(t.pick(&IDENTS).to_string()),
            1 => {
                let l = t.pick(&LITS).to_string();
                if l.contains('~') || l.contains('@') || l.contains("u{40}") {
                    st.lit_with_marker += 1;
                }
                out.push(l);
            }
            2 => out.push(t.pick(&PUNCTS).to_string()),
            3 => {
                let p = if tilde_ok && t.coin() { "~" } else { "@" };
                st.placeholders += 1;
                if depth >= 2 {
                    st.deep_placeholders += 1;
                }
                out.push(p.to_string());
            }
            4 => {
                let inner = soup(t, depth + 1, budget, tilde_ok, st);
                out.push(match t.below(3) {
                    0 => format!("({})", inner),
                    1 => format!("[{}]", inner),
                    _ => format!("{{{}}}", inner),
                });
            }
            _ => {
                // idioms: macro call, closure, turbofish, method chain on a placeholder
                let p = if tilde_ok && t.coin() { "~" } else { "@" };
                st.placeholders += 1;
                if depth >= 2 {
                    st.deep_placeholders += 1;
                }
                out.push(match t.below(4) {
                    0 => format!("format!(\"{{}}~\", {})", p),
                    1 => format!("|q: &'a u8| q + {}", p),
                    2 => format!("{}.iter().collect::<Vec<_>>()", p),
                    _ => format!("{}.0.clone()?", p),
                });
            }
        }
    }
    if out.is_empty() {
        st.placeholders += 1;
        out.push("@".into());
    }
    out.join(" ")
}

/// Independent substitution on the flattened token sequence of the user's expression.
fn expected_seq(user: &str, at: &str, tilde: Option<&str>) -> Option<Vec<String>> {
    let ts: proc_macro2::TokenStream = user.parse().ok()?;
    let at_flat = flat(&at.parse::<proc_macro2::TokenStream>().ok()?);
    let tilde_flat = match tilde {
        Some(p) => Some(flat(&p.parse::<proc_macro2::TokenStream>().ok()?)),
        None => None,
    };
    let mut out = vec![];
    for tok in flat(&ts) {
        let bare = tok.trim_end_matches('+');
        if bare == "@" && (tok == "@" || tok == "@+") {
            out.extend(at_flat.iter().cloned());
        } else if bare == "~" && (tok == "~" || tok == "~+") {
            match &tilde_flat {
                Some(p) => out.extend(p.iter().cloned()),
                None => return None,
            }
        } else {
            out.push(tok);
        }
    }
    Some(out)
}

#[derive(Clone, Debug)]
struct Expect {
    kind: usize,
    fallible: bool,
    at: String,
    tilde: Option<String>,
}

fn find_impl<'a>(items: &'a [ImplItem], kind: usize, fallible: bool) -> Option<&'a ImplItem> {
    let (tn, by_ref) = match (kind, fallible) {
        (FO, false) => ("From", false),
        (FR, false) => ("From", true),
        (FO, true) => ("TryFrom", false),
        (FR, true) => ("TryFrom", true),
        (OI, false) => ("Into", false),
        (RI, false) => ("Into", true),
        (OI, true) => ("TryInto", false),
        (RI, true) => ("TryInto", true),
        (OIE, false) => ("IntoExisting", false),
        (RIE, false) => ("IntoExisting", true),
        (OIE, true) => ("TryIntoExisting", false),
        (RIE, true) => ("TryIntoExisting", true),
        _ => unreachable!(),
    };
    items.iter().find(|it| it.key().map_or(false, |k| k.trait_name == tn && k.by_ref == by_ref))
}

fn trait_attrs(is_enum: bool, extra: Option<(&str, TParam)>) -> Vec<Attr> {
    // all 12 kinds (no into_existing on enums) for one counterpart D
    let mut v = vec![];
    let names: Vec<(&str, Option<&str>)> = if is_enum { vec![("map", None), ("try_map", Some("E"))] } else { vec![("map", None), ("into_existing", None), ("try_map", Some("E")), ("try_into_existing", Some("E"))] };
    for (n, e) in names {
        let mut params = vec![];
        if let Some((target, p)) = &extra {
            if *target == n {
                params.push(p.clone());
            }
        }
        v.push(Attr::bare(Instr::Trait(TraitInstr { name: n.into(), ty: "D".into(), hint: None, err: e.map(|x| x.to_string()), params })));
    }
    v
}

fn field(name: Option<&str>, attrs: Vec<Attr>) -> FieldDef {
    FieldDef { attrs, name: name.map(|s| s.to_string()), ty: "i32".into() }
}

struct Case {
    item: Item,
    user: String,
    expects: Vec<Expect>,
    labels: Vec<String>,
    stats: SoupStats,
}

fn src_obj(kind: usize) -> &'static str {
    if kind == FO || kind == FR {
        "value"
    } else {
        "self"
    }
}

fn gen(t: &mut Tape) -> Case {
    let mut labels = vec![];
    let mut st = SoupStats::default();
    let mut budget = 6 + t.below(40);
    let pos = t.below(12);
    let tilde_ok = matches!(pos, 0 | 1 | 2 | 3 | 4 | 5 | 6);
    let user = soup(t, 0, &mut budget, tilde_ok, &mut st);
    let braced = format!("{{ {} }}", user);
    let mut expects: Vec<Expect> = vec![];
    let mname = t.pick(&MEMBER_MAP_NAMES).to_string();
    let (mkinds, mfall) = trait_name_cells(&mname).unwrap();
    let item = match pos {
        0 | 1 | 2 | 3 => {
            // struct field member instruction: plain / renamed / child path / tuple member
            let rename = pos == 1 || (pos == 2 && t.coin());
            let child = pos == 2;
            let tuple = pos == 3;
            labels.push(format!("position:member-instr{}{}{}", if rename { "+rename" } else { "" }, if child { "+child" } else { "" }, if tuple { "+tuple" } else { "" }));
            let own = if tuple { "1" } else { "m" };
            let that = if rename { if tuple { "0" } else { "mm" } } else { own };
            let mut attrs = vec![];
            if child {
                attrs.push(Attr::bare(Instr::Child { ded: None, path: "k.l".into() }));
            }
            attrs.push(Attr::bare(Instr::Member(MemberInstr { name: mname.clone(), ded: None, member: if rename { Some(that.to_string()) } else { None }, action: Some(braced.clone()) })));
            for k in &mkinds {
                let from = *k == FO || *k == FR;
                let tilde = if from { format!("value.{}{}", if child { "k.l." } else { "" }, that) } else { format!("self.{}", own) };
                expects.push(Expect { kind: *k, fallible: mfall, at: src_obj(*k).into(), tilde: Some(tilde) });
            }
            let mut tattrs = trait_attrs(false, None);
            if child {
                tattrs.push(Attr::bare(Instr::ChildParents { ded: None, entries: vec![("k".into(), "K".into(), None), ("k.l".into(), "L".into(), None)] }));
            }
            let fields = if tuple { vec![field(None, vec![]), field(None, attrs)] } else { vec![field(Some("a"), vec![]), field(Some("m"), attrs)] };
            Item { attrs: tattrs, name: "S".into(), generics: String::new(), where_clause: String::new(), body: Body::Struct(if tuple { Shape::Tuple } else { Shape::Named }, fields) }
        }
        4 | 5 => {
            // enum variant payload field: `~` is the binding
            let named = pos == 5;
            if !named && t.chance(1, 3) {
                // tuple payload, a ghost field first, the marked field renamed to index 0: for From kinds `~` is the binding of the
                // counterpart's position 0 (named after this variant's first field that is not a ghost: f1), for Into kinds the
                // field's own binding (f2)
                labels.push("position:variant-field+tuple+index-rename+ghost-first".into());
                let attrs = vec![Attr::bare(Instr::Member(MemberInstr { name: mname.clone(), ded: None, member: Some("0".into()), action: Some(braced.clone()) }))];
                for k in &mkinds {
                    if *k == OIE || *k == RIE {
                        continue;
                    }
                    let from = *k == FO || *k == FR;
                    expects.push(Expect { kind: *k, fallible: mfall, at: src_obj(*k).into(), tilde: Some(if from { "f1".into() } else { "f2".into() }) });
                }
                let ghost = vec![Attr::bare(Instr::Ghost { name: "ghost".into(), ded: None, action: Some("{ 0 }".into()) })];
                let fields = vec![field(None, ghost), field(None, vec![]), field(None, attrs)];
                return Case { item: Item { attrs: trait_attrs(true, None), name: "S".into(), generics: String::new(), where_clause: String::new(), body: Body::Enum(vec![VariantDef { attrs: vec![], name: "U".into(), shape: Shape::Unit, fields: vec![] }, VariantDef { attrs: vec![], name: "V".into(), shape: Shape::Tuple, fields }]) }, user, expects, labels, stats: st };
            }
            let rename = named && t.coin();
            labels.push(format!("position:variant-field{}{}", if named { "+named" } else { "+tuple" }, if rename { "+rename" } else { "" }));
            let attrs = vec![Attr::bare(Instr::Member(MemberInstr { name: mname.clone(), ded: None, member: if rename { Some("mm".into()) } else { None }, action: Some(braced.clone()) }))];
            for k in &mkinds {
                if *k == OIE || *k == RIE {
                    continue;
                }
                let from = *k == FO || *k == FR;
                let tilde = if named { if from && rename { "mm" } else { "m" } } else { "f1" };
                expects.push(Expect { kind: *k, fallible: mfall, at: src_obj(*k).into(), tilde: Some(tilde.into()) });
            }
            let fields = if named { vec![field(Some("a"), vec![]), field(Some("m"), attrs)] } else { vec![field(None, vec![]), field(None, attrs)] };
            Item { attrs: trait_attrs(true, None), name: "S".into(), generics: String::new(), where_clause: String::new(), body: Body::Enum(vec![VariantDef { attrs: vec![], name: "U".into(), shape: Shape::Unit, fields: vec![] }, VariantDef { attrs: vec![], name: "V".into(), shape: if named { Shape::Named } else { Shape::Tuple }, fields }]) }
        }
        6 => {
            // variant-level expression: `~` is `Dst::Variant`
            let rename = t.coin();
            labels.push(format!("position:variant-expr{}", if rename { "+rename" } else { "" }));
            let vattrs = vec![Attr::bare(Instr::Member(MemberInstr { name: mname.clone(), ded: None, member: if rename { Some("W".into()) } else { None }, action: Some(braced.clone()) }))];
            for k in &mkinds {
                if *k == OIE || *k == RIE {
                    continue;
                }
                let from = *k == FO || *k == FR;
                let tilde = if from { "S::V".to_string() } else { format!("D::{}", if rename { "W" } else { "V" }) };
                expects.push(Expect { kind: *k, fallible: mfall, at: src_obj(*k).into(), tilde: Some(tilde) });
            }
            Item { attrs: trait_attrs(true, None), name: "S".into(), generics: String::new(), where_clause: String::new(), body: Body::Enum(vec![VariantDef { attrs: vec![], name: "U".into(), shape: Shape::Unit, fields: vec![] }, VariantDef { attrs: vattrs, name: "V".into(), shape: Shape::Tuple, fields: vec![field(None, vec![])] }]) }
        }
        7 => {
            // #[ghost(expr)] on a struct field: From kinds
            labels.push("position:ghost".into());
            let gname = *t.pick(&["ghost", "ghost_owned", "ghost_ref"]);
            let attrs = vec![Attr::auto(Instr::Ghost { name: gname.into(), ded: None, action: Some(braced.clone()) })];
            for f in [false, true] {
                for k in [FO, FR] {
                    if (gname == "ghost_owned" && k == FR) || (gname == "ghost_ref" && k == FO) {
                        continue;
                    }
                    expects.push(Expect { kind: k, fallible: f, at: "value".into(), tilde: None });
                }
            }
            Item { attrs: trait_attrs(false, None), name: "S".into(), generics: String::new(), where_clause: String::new(), body: Body::Struct(Shape::Named, vec![field(Some("a"), vec![]), field(Some("m"), attrs)]) }
        }
        8 if t.chance(1, 3) => {
            // enum-level #[ghosts(X: {expr})] / #[ghosts(X(a, ..): {expr})] / #[ghosts(X { a, .. }: {expr})]: From kinds
            let key = *t.pick(&["X", "X(a, ..)", "X { a, .. }", "X(..)"]);
            labels.push(format!("position:enum-ghosts:{}", if key == "X" { "name" } else { "pattern" }));
            let gname = *t.pick(&["ghosts", "ghosts_owned", "ghosts_ref"]);
            let mut tattrs = trait_attrs(true, None);
            tattrs.push(Attr::auto(Instr::Ghosts { name: gname.into(), ded: None, entries: vec![GhostEntry { child_path: None, ident: key.into(), action: user.clone() }] }));
            for f in [false, true] {
                for k in [FO, FR] {
                    if (gname == "ghosts_owned" && k == FR) || (gname == "ghosts_ref" && k == FO) {
                        continue;
                    }
                    expects.push(Expect { kind: k, fallible: f, at: "value".into(), tilde: None });
                }
            }
            Item { attrs: tattrs, name: "S".into(), generics: String::new(), where_clause: String::new(), body: Body::Enum(vec![VariantDef { attrs: vec![], name: "U".into(), shape: Shape::Unit, fields: vec![] }]) }
        }
        8 => {
            // struct-level #[ghosts(g: {expr})]: Into kinds
            labels.push("position:ghosts".into());
            let gname = *t.pick(&["ghosts", "ghosts_owned", "ghosts_ref"]);
            let mut tattrs = trait_attrs(false, None);
            tattrs.push(Attr::auto(Instr::Ghosts { name: gname.into(), ded: None, entries: vec![GhostEntry { child_path: None, ident: "g".into(), action: user.clone() }] }));
            for f in [false, true] {
                for k in [OI, RI, OIE, RIE] {
                    let owned = k == OI || k == OIE;
                    if (gname == "ghosts_owned" && !owned) || (gname == "ghosts_ref" && owned) {
                        continue;
                    }
                    expects.push(Expect { kind: k, fallible: f, at: "self".into(), tilde: None });
                }
            }
            Item { attrs: tattrs, name: "S".into(), generics: String::new(), where_clause: String::new(), body: Body::Struct(Shape::Named, vec![field(Some("a"), vec![])]) }
        }
        9 | 10 => {
            // vars(v: {expr}) / return {expr} on one trait instruction (struct or enum)
            let is_enum = t.chance(1, 3);
            let names: Vec<&str> = if is_enum { vec!["map", "try_map"] } else { vec!["map", "into_existing", "try_map", "try_into_existing"] };
            let target = *t.pick(&names);
            let param = if pos == 9 {
                labels.push("position:vars".into());
                TParam::Vars(vec![("v".into(), user.clone())])
            } else {
                labels.push("position:return".into());
                TParam::Return(braced.clone())
            };
            let (ks, f) = trait_name_cells(target).unwrap();
            for k in ks {
                expects.push(Expect { kind: k, fallible: f, at: src_obj(k).into(), tilde: None });
            }
            let body = if is_enum { Body::Enum(vec![VariantDef { attrs: vec![], name: "U".into(), shape: Shape::Unit, fields: vec![] }]) } else { Body::Struct(Shape::Named, vec![field(Some("a"), vec![])]) };
            Item { attrs: trait_attrs(is_enum, Some((target, param))), name: "S".into(), generics: String::new(), where_clause: String::new(), body }
        }
        _ => {
            if t.coin() {
                // ..{expr} on a From / Into instruction of a struct
                labels.push("position:update".into());
                let target = *t.pick(&["map", "try_map"]);
                let (ks, f) = trait_name_cells(target).unwrap();
                for k in ks {
                    expects.push(Expect { kind: k, fallible: f, at: src_obj(k).into(), tilde: None });
                }
                // with a parameterless #[parent] member the Into kinds take ..update as the start value of the step-by-step body
                let mut fields = vec![field(Some("a"), vec![])];
                if t.chance(1, 3) {
                    labels.push("position:update+bare-parent".into());
                    fields.push(FieldDef { attrs: vec![Attr::bare(Instr::Parent { ded: None, fields: None })], name: Some("p".into()), ty: "P".into() });
                }
                Item { attrs: trait_attrs(false, Some((target, TParam::Update(braced.clone())))), name: "S".into(), generics: String::new(), where_clause: String::new(), body: Body::Struct(Shape::Named, fields) }
            } else if t.chance(1, 3) {
                // `_ => expr` default case evaluated by From kinds: enum with a type-level #[ghosts(..)]
                labels.push("position:default-case-from".into());
                let target = *t.pick(&["map", "try_map"]);
                let (ks, f) = trait_name_cells(target).unwrap();
                for k in ks {
                    if k == FO || k == FR {
                        expects.push(Expect { kind: k, fallible: f, at: "value".into(), tilde: None });
                    }
                }
                let mut tattrs = trait_attrs(true, Some((target, TParam::DefaultCase(user.clone()))));
                tattrs.push(Attr::auto(Instr::Ghosts { name: "ghosts".into(), ded: None, entries: vec![GhostEntry { child_path: None, ident: "X".into(), action: "{ S::U }".into() }] }));
                Item { attrs: tattrs, name: "S".into(), generics: String::new(), where_clause: String::new(), body: Body::Enum(vec![VariantDef { attrs: vec![], name: "U".into(), shape: Shape::Unit, fields: vec![] }]) }
            } else {
                // `_ => expr` default case: enum with a payload-less #[ghost] variant (Into kinds evaluate it)
                labels.push("position:default-case".into());
                let target = *t.pick(&["map", "try_map"]);
                let (ks, f) = trait_name_cells(target).unwrap();
                for k in ks {
                    if k == OI || k == RI {
                        expects.push(Expect { kind: k, fallible: f, at: "self".into(), tilde: None });
                    }
                }
                let vs = vec![VariantDef { attrs: vec![], name: "U".into(), shape: Shape::Unit, fields: vec![] }, VariantDef { attrs: vec![Attr::bare(Instr::Ghost { name: "ghost".into(), ded: None, action: None })], name: "G".into(), shape: Shape::Unit, fields: vec![] }];
                Item { attrs: trait_attrs(true, Some((target, TParam::DefaultCase(user.clone())))), name: "S".into(), generics: String::new(), where_clause: String::new(), body: Body::Enum(vs) }
            }
        }
    };
    Case { item, user, expects, labels, stats: st }
}

impl Part for Subst {
    fn name(&self) -> &'static str {
        "subst"
    }
    fn prop(&self) -> &'static str {
        "C10"
    }
    fn rule(&self) -> String {
        "A random token tree (depth <= 5, <= 46 tokens: idents, keywords, all literal kinds incl. strings / chars / raw / byte literals containing @ and ~, lifetimes, every joint punctuation, nested ()[]{} groups, macro calls, closures, turbofish) with @ (and ~ where a member exists) at every nesting level is placed in one of 12 positions that accept an inline expression (struct member instruction: plain / renamed / with child path / tuple member; enum payload field: tuple / named / renamed; variant-level expression; #[ghost]; #[ghosts]; vars; return; ..update; _ => default case) under a random one of the 21 member instruction names (or trait instruction), with all 12 kinds requested. Oracle: an independent substitution on the flattened token sequence (@ -> value | self; ~ -> the path the property designates) must occur as a contiguous subsequence of the fn body of every impl the instruction applies to exactly (same kind and fallibility). Non-trivial = >= 1 placeholder at nesting depth >= 2 and >= 1 literal containing @ or ~; distinct by input text.".into()
    }
    fn cases(&self, tier: Tier) -> usize {
        match tier {
            Tier::Quick => 96_000,
            Tier::Thorough => 1_600_000,
        }
    }
    fn max_tape(&self) -> usize {
        160
    }
    fn run_case(&self, tape: &[u16], ctx: &Ctx) -> CaseReport {
        let mut t = Tape::new(tape);
        let c = gen(&mut t);
        let text = c.item.render();
        let mut labels = c.labels.clone();
        labels.push(format!("depth:{}", c.stats.max_depth));
        let nontrivial = c.stats.deep_placeholders >= 1 && c.stats.lit_with_marker >= 1;
        let di = match parse_input(&text) {
            Ok(d) => d,
            Err(e) => return CaseReport { key: text, nontrivial: false, labels, verdict: Verdict::Discard(format!("non-item: {}", e.chars().take(50).collect::<String>())) },
        };
        let ts = match expand_tokens(&di) {
            Ok(ts) => ts,
            Err(Outcome::Panic(m)) => return CaseReport { key: text.clone(), nontrivial, labels, verdict: ctx.fail_or_known("C10", Some("panic-is-C16"), format!("panic: {}", m), json!({"input": text})) },
            Err(o) => {
                // the derive may reject token trees it cannot parse as an action; that is outside this property
                labels.push("rejected".into());
                return CaseReport { key: text, nontrivial: false, labels, verdict: Verdict::Discard(format!("rejected: {}", o.short().chars().take(60).collect::<String>())) };
            }
        };
        let items = match split_items(&ts) {
            Ok(i) => i,
            Err(e) => return CaseReport { key: text.clone(), nontrivial, labels, verdict: Verdict::Discard(format!("unsplittable output: {}", e.chars().take(60).collect::<String>())) },
        };
        for e in &c.expects {
            let it = match find_impl(&items, e.kind, e.fallible) {
                Some(i) => i,
                None => return CaseReport { key: text.clone(), nontrivial, labels, verdict: ctx.fail_or_known("C10", None, format!("no impl for ({}, fallible={})", KIND_NAMES[e.kind], e.fallible), json!({"input": text})) },
            };
            let want = match expected_seq(&c.user, &e.at, e.tilde.as_deref()) {
                Some(w) => w,
                None => return CaseReport { key: text, nontrivial: false, labels, verdict: Verdict::Discard("generator: cannot build expected sequence".into()) },
            };
            let have = flat(&it.body);
            if !contains_subseq(&have, &want) {
                return CaseReport {
                    key: text.clone(),
                    nontrivial,
                    labels,
                    verdict: ctx.fail_or_known(
                        "C10",
                        None,
                        format!("the user's expression does not reach the ({}, fallible={}) impl with @ -> {} and ~ -> {:?} substituted and every other token unchanged", KIND_NAMES[e.kind], e.fallible, e.at, e.tilde),
                        json!({"input": text, "expression": c.user, "expected_tokens": want.join(" "), "impl": it.text}),
                    ),
                };
            }
        }
        labels.push(format!("impls-checked:{}", c.expects.len().min(9)));
        CaseReport { key: text, nontrivial, labels, verdict: Verdict::Pass }
    }
}
