//! C17 — accepted inputs expand to syntactically valid impl items of the right shape.

use crate::dsl::*;
use crate::gen::{gen_item, GenOpts};
use crate::items::{nospace, split_items};
use crate::runner::{CaseReport, Ctx, Part, Tier, Verdict};
use crate::tape::Tape;
use crate::xp::{expand_tokens, parse_input, Outcome};
use serde_json::json;
use syn2full as syn2;

pub struct Valid {
    opts: GenOpts,
}
pub struct Recombine {
    opts: GenOpts,
}

pub fn parts() -> Vec<Box<dyn Part>> {
    let opts = GenOpts { allow_repeat: false, allow_generics: true, enum_into_existing: true, ..GenOpts::default() };
    vec![Box::new(Valid { opts: opts.clone() }), Box::new(Recombine { opts }), Box::new(Lattice)]
}

#[derive(Debug)]
pub struct ShapeFailure {
    pub what: String,
    pub item: String,
    /// structural class of the failing item, used by known-finding matchers
    pub class: String,
}

fn type_str(t: &syn2::Type) -> String {
    nospace(&quote::ToTokens::to_token_stream(t).to_string())
}

fn last_seg_is(ty: &syn2::Type, name: &str) -> bool {
    if let syn2::Type::Path(p) = ty {
        p.path.segments.last().map_or(false, |s| s.ident == name)
    } else {
        false
    }
}

/// The shape oracle of C17 for one parsed impl item.
fn check_impl(imp: &syn2::ItemImpl) -> Result<(), String> {
    let (_, path, _) = imp.trait_.as_ref().ok_or("inherent impl (no trait)")?;
    let pstr = nospace(&quote::ToTokens::to_token_stream(path).to_string());
    let lt = pstr.find('<').unwrap_or(pstr.len());
    let (tname, fallible, is_from, existing) = match &pstr[..lt] {
        "::core::convert::From" => ("from", false, true, false),
        "::core::convert::TryFrom" => ("try_from", true, true, false),
        "::core::convert::Into" => ("into", false, false, false),
        "::core::convert::TryInto" => ("try_into", true, false, false),
        "o2o::traits::IntoExisting" => ("into_existing", false, false, true),
        "o2o::traits::TryIntoExisting" => ("try_into_existing", true, false, true),
        other => return Err(format!("impl of `{}` is not one of the six conversion traits", other)),
    };
    let targ = match &path.segments.last().unwrap().arguments {
        syn2::PathArguments::AngleBracketed(a) if a.args.len() == 1 => match &a.args[0] {
            syn2::GenericArgument::Type(t) => t.clone(),
            _ => return Err("trait argument is not a type".into()),
        },
        _ => return Err("trait must have exactly one type argument".into()),
    };
    let mut fns = vec![];
    let mut err_ty = None;
    for it in &imp.items {
        match it {
            syn2::ImplItem::Fn(f) => fns.push(f),
            syn2::ImplItem::Type(t) if t.ident == "Error" && err_ty.is_none() => err_ty = Some(t),
            other => return Err(format!("unexpected impl member: {}", quote::ToTokens::to_token_stream(other))),
        }
    }
    if fns.len() != 1 {
        return Err(format!("{} methods, expected exactly one", fns.len()));
    }
    if fallible != err_ty.is_some() {
        return Err(format!("`type Error` {} for a {} trait", if err_ty.is_some() { "present" } else { "missing" }, if fallible { "fallible" } else { "infallible" }));
    }
    let f = fns[0];
    if f.sig.ident != tname {
        return Err(format!("method is `{}`, trait requires `{}`", f.sig.ident, tname));
    }
    let inputs: Vec<&syn2::FnArg> = f.sig.inputs.iter().collect();
    let ret: Option<&syn2::Type> = match &f.sig.output {
        syn2::ReturnType::Default => None,
        syn2::ReturnType::Type(_, t) => Some(t),
    };
    let result_ok = |t: &syn2::Type| -> Result<(syn2::Type, syn2::Type), String> {
        if let syn2::Type::Path(p) = t {
            let s = nospace(&quote::ToTokens::to_token_stream(&p.path).to_string());
            if !s.starts_with("::core::result::Result<") {
                return Err(format!("return type `{}` is not ::core::result::Result<..>", s));
            }
            if let syn2::PathArguments::AngleBracketed(a) = &p.path.segments.last().unwrap().arguments {
                let tys: Vec<&syn2::Type> = a.args.iter().filter_map(|x| if let syn2::GenericArgument::Type(t) = x { Some(t) } else { None }).collect();
                if tys.len() == 2 {
                    return Ok((tys[0].clone(), tys[1].clone()));
                }
            }
        }
        Err("fallible method must return Result<T, E>".into())
    };
    if is_from {
        if inputs.len() != 1 {
            return Err(format!("`{}` takes {} parameters, expected 1", tname, inputs.len()));
        }
        match inputs[0] {
            syn2::FnArg::Typed(pt) => {
                if type_str(&pt.ty) != type_str(&targ) {
                    return Err(format!("parameter type `{}` differs from trait argument `{}`", type_str(&pt.ty), type_str(&targ)));
                }
            }
            _ => return Err("From::from must not take a receiver".into()),
        }
        let r = ret.ok_or("from must return a value")?;
        if fallible {
            let (_ok, e) = result_ok(r)?;
            let decl = type_str(&err_ty.unwrap().ty);
            if type_str(&e) != decl && !last_seg_is(&e, "Error") {
                return Err(format!("Result error type `{}` differs from `type Error = {}`", type_str(&e), decl));
            }
        }
    } else {
        let expect_n = if existing { 2 } else { 1 };
        if inputs.len() != expect_n {
            return Err(format!("`{}` takes {} parameters, expected {}", tname, inputs.len(), expect_n));
        }
        match inputs[0] {
            syn2::FnArg::Receiver(r) => {
                if r.reference.is_some() || r.colon_token.is_some() {
                    return Err("receiver must be `self` by value".into());
                }
            }
            _ => return Err("first parameter must be `self`".into()),
        }
        if existing {
            match inputs[1] {
                syn2::FnArg::Typed(pt) => {
                    let want = format!("&mut{}", type_str(&targ));
                    if type_str(&pt.ty) != want {
                        return Err(format!("second parameter type `{}` is not `&mut {}`", type_str(&pt.ty), type_str(&targ)));
                    }
                }
                _ => return Err("second parameter must be typed".into()),
            }
            if fallible {
                let (ok, e) = result_ok(ret.ok_or("try_into_existing must return Result<(), E>")?)?;
                if type_str(&ok) != "()" {
                    return Err("try_into_existing must return Result<(), E>".into());
                }
                let decl = type_str(&err_ty.unwrap().ty);
                if type_str(&e) != decl && !last_seg_is(&e, "Error") {
                    return Err(format!("Result error type `{}` differs from `type Error = {}`", type_str(&e), decl));
                }
            } else if let Some(r) = ret {
                if type_str(r) != "()" {
                    return Err("into_existing must not return a value".into());
                }
            }
        } else {
            let r = ret.ok_or("into must return a value")?;
            if fallible {
                let (ok, e) = result_ok(r)?;
                if type_str(&ok) != type_str(&targ) {
                    return Err(format!("Ok type `{}` differs from trait argument `{}`", type_str(&ok), type_str(&targ)));
                }
                let decl = type_str(&err_ty.unwrap().ty);
                if type_str(&e) != decl && !last_seg_is(&e, "Error") {
                    return Err(format!("Result error type `{}` differs from `type Error = {}`", type_str(&e), decl));
                }
            } else if type_str(r) != type_str(&targ) {
                return Err(format!("return type `{}` differs from trait argument `{}`", type_str(r), type_str(&targ)));
            }
        }
    }
    Ok(())
}

/// Full C17 oracle on an accepted expansion.
pub fn check_output(ts: &proc_macro2::TokenStream) -> Result<usize, ShapeFailure> {
    let text = ts.to_string();
    let items = match split_items(ts) {
        Ok(i) => i,
        Err(e) => return Err(ShapeFailure { what: format!("output is not a sequence of impl items: {}", e), item: text, class: "not-impl-sequence".into() }),
    };
    for it in &items {
        let parsed = syn2::parse_str::<syn2::Item>(&it.text);
        let class = format!("{}{}", it.trait_short().unwrap_or("?"), if it.body.to_string().contains("let mut obj") { "+post-init" } else { "" });
        match parsed {
            Ok(syn2::Item::Impl(imp)) => {
                if let Err(e) = check_impl(&imp) {
                    return Err(ShapeFailure { what: e, item: it.text.clone(), class });
                }
            }
            Ok(_) => return Err(ShapeFailure { what: "item is not an impl".into(), item: it.text.clone(), class }),
            Err(e) => return Err(ShapeFailure { what: format!("impl item does not parse: {}", e), item: it.text.clone(), class }),
        }
    }
    // and the whole thing as a file (nothing between / after the items)
    if let Err(e) = syn2::parse_str::<syn2::File>(&text) {
        return Err(ShapeFailure { what: format!("output does not parse as a file: {}", e), item: text, class: "file".into() });
    }
    Ok(items.len())
}

/// Known-finding signature for a C17 failure.  In the constructive (`valid`) domain signatures are narrow
/// structural predicates; in the `recombine` domain (inputs that cross the generator's validity rules — mostly
/// undiagnosed misuse) they are coarser and namespaced `rc:` so that they never mask a failure of the valid domain.
pub fn failure_sig(part: &str, input: &str, f: &ShapeFailure) -> Option<String> {
    let is_enum = input.contains("\nenum S") || input.starts_with("enum S");
    let base = f.class.trim_start_matches("Try").to_string();
    let narrow = if is_enum && base.starts_with("IntoExisting") {
        Some("enum-into-existing".to_string())
    } else if f.class.ends_with("+post-init") {
        Some("post-init-body".to_string())
    } else if generics_in_decl_form(&f.item) {
        Some("generics-decl-form-in-type-position".to_string())
    } else {
        None
    };
    if part == "recombine" {
        let err: String = f.what.chars().filter(|c| c.is_ascii_alphanumeric() || *c == ' ').take(48).collect::<String>().trim().replace(' ', "-");
        return Some(narrow.unwrap_or(format!("rc:{}:{}:{}", if is_enum { "enum" } else { "struct" }, base.trim_end_matches("+post-init"), err)));
    }
    narrow
}

/// `impl<T: Copy, const N: usize> .. for S<T: Copy, const N: usize>`: the deriving type's parameters re-emitted in
/// declaration form where arguments are required.
fn generics_in_decl_form(item: &str) -> bool {
    for marker in ["for S <", "for & S <", "for & 'o2o S <", "-> S <"] {
        if let Some(p) = item.find(marker) {
            let rest = &item[p + marker.len()..];
            let end = rest.find('>').unwrap_or(rest.len());
            let args = &rest[..end];
            if args.contains("const ") || args.replace("::", "").contains(':') || args.contains('=') {
                return true;
            }
        }
    }
    false
}

fn judge(part: &str, text: String, mut labels: Vec<String>, ctx: &Ctx) -> CaseReport {
    let di = match parse_input(&text) {
        Ok(d) => d,
        Err(e) => return CaseReport { key: text, nontrivial: false, labels, verdict: Verdict::Discard(format!("generator produced a non-item: {}", e.chars().take(60).collect::<String>())) },
    };
    match expand_tokens(&di) {
        Ok(ts) => {
            labels.push("accepted".into());
            // non-trivial: uses >= 2 of {hint, post-init parent, update, child, ghosts, enum payload}
            let feats = ["hint:", "parent:bare", "param:update", "child:", "ghosts", "variant:Tuple", "variant:Named"];
            let nfeat = feats.iter().filter(|f| labels.iter().any(|l| l.starts_with(*f))).count();
            let nontrivial = nfeat >= 2;
            match check_output(&ts) {
                Ok(n) => {
                    labels.push(format!("impls:{}", n.min(9)));
                    CaseReport { key: text, nontrivial, labels, verdict: Verdict::Pass }
                }
                Err(f) => {
                    let sig = failure_sig(part, &text, &f);
                    let verdict = ctx.fail_or_known("C17", sig.as_deref(), format!("accepted input expands to an invalid item: {} [class={}]", f.what, f.class), json!({"input": text, "failure": f.what, "item": f.item, "class": f.class}));
                    CaseReport { key: text, nontrivial, labels, verdict }
                }
            }
        }
        Err(Outcome::Err(_)) => {
            labels.push("rejected".into());
            CaseReport { key: text, nontrivial: false, labels, verdict: Verdict::Pass }
        }
        Err(Outcome::Panic(_)) => {
            labels.push("panicked(C16's business)".into());
            CaseReport { key: text, nontrivial: false, labels, verdict: Verdict::Pass }
        }
        Err(_) => CaseReport { key: text, nontrivial: false, labels, verdict: Verdict::Pass },
    }
}

const RULE_TAIL: &str = " Oracle: every item cut by the token-level splitter parses (syn 2, feature full) as an `impl` of one of the six traits with exactly one fn of the trait's name, the documented receiver/parameter types and return-type shape (parameter names and Self-vs-spelled-out unconstrained), `type Error` iff fallible; and the whole output parses as a file. Non-trivial = accepted and uses >= 2 of {type hint, bare #[parent] (post-init body), ..update, child, ghosts, enum payload}; distinct by input text.";

impl Part for Valid {
    fn name(&self) -> &'static str {
        "valid"
    }
    fn prop(&self) -> &'static str {
        "C17"
    }
    fn rule(&self) -> String {
        format!("Valid-mode L1 inputs (all features except repeat — that is C14's subject — incl. generics and enum into_existing); embedded expressions/types/patterns come from a well-formed grammar and sit in expression/type/pattern positions by construction.{}", RULE_TAIL)
    }
    fn cases(&self, tier: Tier) -> usize {
        match tier {
            Tier::Quick => 72_000,
            Tier::Thorough => 1_200_000,
        }
    }
    fn max_tape(&self) -> usize {
        320
    }
    fn run_case(&self, tape: &[u16], ctx: &Ctx) -> CaseReport {
        let mut t = Tape::new(tape);
        let (item, labels) = gen_item(&mut t, &self.opts);
        judge(self.name(), item.render(), labels, ctx)
    }
    fn run_text(&self, text: &str, ctx: &Ctx) -> Option<CaseReport> {
        Some(judge(self.name(), text.to_string(), vec![], ctx))
    }
}

/// Structure-preserving recombination: crosses the validity rules the valid generator obeys while keeping
/// every embedded expression in an expression position, so "everything validation lets through" is sampled
/// beyond the generator's own idea of validity (acceptance rate is in the class histogram).
pub fn recombine(t: &mut Tape, item: &mut Item, labels: &mut Vec<String>) {
    let k = 1 + t.below(3);
    for _ in 0..k {
        match t.below(7) {
            0 => {
                // change the hint of one trait instruction
                let n = item.trait_instrs().len();
                if n > 0 {
                    let target = t.below(n);
                    let h = match t.below(4) {
                        0 => None,
                        1 => Some(Hint::Struct),
                        2 => Some(Hint::Tuple),
                        _ => Some(Hint::Unit),
                    };
                    let mut idx = 0;
                    for a in item.attrs.iter_mut() {
                        if let Some(ins) = a.instrs_mut() {
                            for i in ins.iter_mut() {
                                if let Instr::Trait(tr) = i {
                                    if idx == target && !tr.ty.starts_with('(') {
                                        tr.hint = h;
                                    }
                                    idx += 1;
                                }
                            }
                        }
                    }
                    labels.push("recombine:hint".into());
                }
            }
            1 => {
                // rename one trait instruction (other kind set, same fallibility)
                let n = item.trait_instrs().len();
                if n > 0 {
                    let target = t.below(n);
                    let base = *t.pick(&["map", "from", "into", "into_existing", "owned_into", "ref_into_existing", "from_ref", "map_ref", "owned_into_existing"]);
                    let mut idx = 0;
                    for a in item.attrs.iter_mut() {
                        if let Some(ins) = a.instrs_mut() {
                            for i in ins.iter_mut() {
                                if let Instr::Trait(tr) = i {
                                    if idx == target {
                                        let fallible = tr.fallible();
                                        tr.name = if fallible {
                                            match base {
                                                "owned_into" => "owned_try_into".to_string(),
                                                "ref_into_existing" => "ref_try_into_existing".to_string(),
                                                "owned_into_existing" => "owned_try_into_existing".to_string(),
                                                "from_ref" => "try_from_ref".to_string(),
                                                b => format!("try_{}", b),
                                            }
                                        } else {
                                            base.to_string()
                                        };
                                    }
                                    idx += 1;
                                }
                            }
                        }
                    }
                    labels.push("recombine:kind".into());
                }
            }
            2 => {
                // named <-> tuple struct, attributes kept
                if let Body::Struct(shape, fields) = &mut item.body {
                    match shape {
                        Shape::Named => {
                            *shape = Shape::Tuple;
                            for f in fields.iter_mut() {
                                f.name = None;
                            }
                        }
                        Shape::Tuple => {
                            *shape = Shape::Named;
                            for (i, f) in fields.iter_mut().enumerate() {
                                f.name = Some(format!("n{}", i));
                            }
                        }
                        Shape::Unit => {}
                    }
                    labels.push("recombine:shape".into());
                } else if let Body::Enum(vs) = &mut item.body {
                    if !vs.is_empty() {
                        let n = vs.len();
                        let v = &mut vs[t.below(n)];
                        match v.shape {
                            Shape::Named => {
                                v.shape = Shape::Tuple;
                                for f in v.fields.iter_mut() {
                                    f.name = None;
                                }
                            }
                            Shape::Tuple => {
                                v.shape = Shape::Named;
                                for (i, f) in v.fields.iter_mut().enumerate() {
                                    f.name = Some(format!("n{}", i));
                                }
                            }
                            Shape::Unit => {}
                        }
                        labels.push("recombine:variant-shape".into());
                    }
                }
            }
            3 => {
                // swap the attribute lists of two members of the same level
                match &mut item.body {
                    Body::Struct(_, fields) if fields.len() >= 2 => {
                        let n = fields.len();
                        let (a, b) = (t.below(n), t.below(n));
                        if a != b {
                            let tmp = fields[a].attrs.clone();
                            fields[a].attrs = fields[b].attrs.clone();
                            fields[b].attrs = tmp;
                            labels.push("recombine:swap-members".into());
                        }
                    }
                    Body::Enum(vs) if vs.len() >= 2 => {
                        let n = vs.len();
                        let (a, b) = (t.below(n), t.below(n));
                        if a != b {
                            let tmp = vs[a].attrs.clone();
                            vs[a].attrs = vs[b].attrs.clone();
                            vs[b].attrs = tmp;
                            labels.push("recombine:swap-variants".into());
                        }
                    }
                    _ => {}
                }
            }
            4 => {
                // drop one attribute somewhere
                let mut sites = vec![];
                let mut idx = 0;
                item.for_each_attr_list(&mut |_, l| {
                    if !l.is_empty() {
                        sites.push(idx);
                    }
                    idx += 1;
                });
                if !sites.is_empty() {
                    let target = *t.pick(&sites);
                    let d = t.raw() as usize;
                    let mut idx = 0;
                    item.for_each_attr_list_mut(&mut |_, l| {
                        if idx == target {
                            let pos = (d * l.len()) >> 16;
                            l.remove(pos);
                        }
                        idx += 1;
                    });
                    labels.push("recombine:drop".into());
                }
            }
            5 => {
                // drop / change the dedication of one member-level instruction
                let tys: Vec<String> = item.trait_instrs().iter().map(|x| x.ty.clone()).filter(|x| !x.starts_with('(')).collect();
                let newd = if tys.is_empty() || t.coin() { None } else { Some(t.pick(&tys).clone()) };
                let total = item.count_instrs();
                if total > 0 {
                    let target = t.below(total);
                    let mut idx = 0;
                    item.for_each_attr_list_mut(&mut |site, l| {
                        for a in l.iter_mut() {
                            if let Some(ins) = a.instrs_mut() {
                                for i in ins.iter_mut() {
                                    if idx == target && site.is_member() {
                                        match i {
                                            Instr::Member(m) => m.ded = newd.clone(),
                                            Instr::Ghost { ded, .. } | Instr::Child { ded, .. } | Instr::Parent { ded, .. } | Instr::TypeHint { ded, .. } => *ded = newd.clone(),
                                            _ => {}
                                        }
                                    }
                                    idx += 1;
                                }
                            }
                        }
                    });
                    labels.push("recombine:dedication".into());
                }
            }
            _ => {
                // strip the action or the member name from one member mapping instruction
                let total = item.count_instrs();
                if total > 0 {
                    let target = t.below(total);
                    let which = t.coin();
                    let mut idx = 0;
                    item.for_each_attr_list_mut(&mut |_, l| {
                        for a in l.iter_mut() {
                            if let Some(ins) = a.instrs_mut() {
                                for i in ins.iter_mut() {
                                    if idx == target {
                                        if let Instr::Member(m) = i {
                                            if which {
                                                m.action = None;
                                            } else {
                                                m.member = None;
                                            }
                                        }
                                    }
                                    idx += 1;
                                }
                            }
                        }
                    });
                    labels.push("recombine:strip".into());
                }
            }
        }
    }
}

impl Part for Recombine {
    fn name(&self) -> &'static str {
        "recombine"
    }
    fn prop(&self) -> &'static str {
        "C17"
    }
    fn rule(&self) -> String {
        format!("Valid-mode L1 input followed by 1-3 structure-preserving recombinations (change a hint, change a trait instruction's kind set, named<->tuple, swap attribute lists of two members, drop an attribute, change a dedication, strip a member name or action) that cross the generator's own validity rules but keep embedded expressions in expression positions; the domain is whatever validation accepts (see accepted/rejected in class_histogram).{}", RULE_TAIL)
    }
    fn cases(&self, tier: Tier) -> usize {
        match tier {
            Tier::Quick => 72_000,
            Tier::Thorough => 1_200_000,
        }
    }
    fn max_tape(&self) -> usize {
        320
    }
    fn run_case(&self, tape: &[u16], ctx: &Ctx) -> CaseReport {
        let mut t = Tape::new(tape);
        let (mut item, mut labels) = gen_item(&mut t, &self.opts);
        recombine(&mut t, &mut item, &mut labels);
        judge(self.name(), item.render(), labels, ctx)
    }
    fn run_text(&self, text: &str, ctx: &Ctx) -> Option<CaseReport> {
        Some(judge(self.name(), text.to_string(), vec![], ctx))
    }
}

/// The instruction-selection lattice of C16 (`props::c16::gen_lattice`) under this property's oracle: what validation lets through
/// of it has to expand to well-formed impl items.
pub struct Lattice;

impl Part for Lattice {
    fn name(&self) -> &'static str {
        "lattice"
    }
    fn prop(&self) -> &'static str {
        "C17"
    }
    fn rule(&self) -> String {
        format!("Instruction-selection lattice (the generator of C16's part `lattice`: any trait spelling x any hint x member instructions of related spellings with / without counterpart name and action, child parents of any hint, enum variants with hints); embedded expressions are well-formed and sit in expression positions; the domain is what validation accepts of it.{}", RULE_TAIL)
    }
    fn cases(&self, tier: Tier) -> usize {
        match tier {
            Tier::Quick => 48_000,
            Tier::Thorough => 800_000,
        }
    }
    fn max_tape(&self) -> usize {
        160
    }
    fn run_case(&self, tape: &[u16], ctx: &Ctx) -> CaseReport {
        let mut t = Tape::new(tape);
        let (text, labels) = crate::props::c16::gen_lattice(&mut t);
        judge(self.name(), text, labels, ctx)
    }
    fn run_text(&self, text: &str, ctx: &Ctx) -> Option<CaseReport> {
        Some(judge(self.name(), text.to_string(), vec![], ctx))
    }
}
