//! C02 — enum conversions map each variant and payload field to its designated target.

use crate::e2::{CaseOutcome, E2Case, E2Part, Mode};
use crate::plan_enum::{gen_plan, render};
use crate::runner::Tier;
use crate::tape::Tape;

pub struct Enums;

impl E2Part for Enums {
    fn name(&self) -> &'static str {
        "enums"
    }
    fn prop(&self) -> &'static str {
        "C02"
    }
    fn rule(&self) -> String {
        "L2 enum plans: 1-6 variants of S in any order (unit / tuple 1-3 / struct 1-3 i64 payload leaves), counterpart enum D built from it with renamed variants, #[type_hint(as {} | as () | as Unit)] switching the counterpart variant's form (tuple->struct with member names, struct->tuple positional, data->unit for Into-only, unit->data for From-only), payload roles (rename, ~ expression per direction with *~ for by-reference kinds, ghost with default, D-only payload members through variant-level #[ghosts]), variant-level expressions ~(f0 + c), S-only ghost variants (#[ghost] -> default case, #[ghost({expr})] -> arm), D-only variants through type-level #[ghosts(V: {..}, V(..): {..}, V { .. }: {..})], `_ => expr` default cases in the two documented ways; kinds From/Into, owned/ref, one fallibility per direction. Oracle: reference match functions rendered from the plan; every variant of the source enum (incl. ghost / D-only ones) is constructed with distinct payload values, converted and compared (default-case results against the plan's designated value or error). Non-trivial = >= 2 variants, >= 1 with payload and >= 1 non-default instruction; distinct by derive-input text.".into()
    }
    fn cases(&self, tier: Tier) -> usize {
        match tier {
            Tier::Quick => 2_400,
            Tier::Thorough => 48_000,
        }
    }
    fn mode(&self) -> Mode {
        Mode::Run
    }
    fn gen(&self, tape: &[u16]) -> E2Case {
        let mut t = Tape::new(tape);
        let plan = gen_plan(&mut t);
        render(&mut t, &plan, false)
    }
    fn sig(&self, case: &E2Case, outcome: &CaseOutcome) -> Option<String> {
        enum_sig(case, outcome)
    }
}

pub fn enum_sig(case: &E2Case, outcome: &CaseOutcome) -> Option<String> {
    let has = |f: &str| case.facts.iter().any(|x| x == f);
    match outcome {
        CaseOutcome::CompileFail { code, .. } if code == "E0416" && has("variant-ghosts-index-equals-a-mapped-field-index") => Some("variant-ghosts-binding-name-collision".into()),
        CaseOutcome::Rejected(m) if m.contains("panic") => Some("panic-is-C16".into()),
        _ => None,
    }
}

pub fn e2_parts() -> Vec<Box<dyn E2Part>> {
    vec![Box::new(Enums)]
}
