//! C02 — enum conversions map each variant and payload field to its designated target.

use crate::e2::{CaseOutcome, E2Case, E2Part, Mode};
use crate::plan_enum::{gen_plan, render};
use crate::runner::Tier;
use crate::tape::Tape;

pub struct Enums;

impl E2Part for Enums {
    fn name(&self) -> &'static str {
        "enums"
    }
    fn prop(&self) -> &'static str {
        "C02"
    }
    fn rule(&self) -> String {
        "L2 enum plans: 1-6 variants of S in any order (unit / tuple 1-3 / struct 1-3 i64 payload leaves), counterpart enum D built from it with renamed variants, #[type_hint(as {} | as () | as Unit)] switching the counterpart variant's form (tuple->struct with member names, struct->tuple positional, data->unit for Into-only, unit->data for From-only), payload roles (rename, ~ expression per direction with *~ for by-reference kinds, ghost with default, D-only payload members through variant-level #[ghosts]), variant-level expressions ~(f0 + c), S-only ghost variants (#[ghost] -> default case, #[ghost({expr})] -> arm), D-only variants through type-level #[ghosts(V: {..}, V(..): {..}, V { .. }: {..})], `_ => expr` default cases in the two documented ways; kinds From/Into, owned/ref, one fallibility per direction. Oracle: reference match functions rendered from the plan; every variant of the source enum (incl. ghost / D-only ones) is constructed with distinct payload values, converted and compared (default-case results against the plan's designated value or error). Non-trivial = >= 2 variants, >= 1 with payload and >= 1 non-default instruction; distinct by derive-input text.".into()
    }
    fn cases(&self, tier: Tier) -> usize {
        match tier {
            Tier::Quick => 4_800,
            Tier::Thorough => 48_000,
        }
    }
    fn mode(&self) -> Mode {
        Mode::Run
    }
    fn gen(&self, tape: &[u16]) -> E2Case {
        let mut t = Tape::new(tape);
        let plan = gen_plan(&mut t);
        render(&mut t, &plan, false)
    }
    fn sig(&self, case: &E2Case, outcome: &CaseOutcome) -> Option<String> {
        enum_sig(case, outcome)
    }
}

pub fn enum_sig(case: &E2Case, outcome: &CaseOutcome) -> Option<String> {
    let has = |f: &str| case.facts.iter().any(|x| x == f);
    match outcome {
        CaseOutcome::CompileFail { code, .. } if code == "E0416" && has("variant-ghosts-index-equals-a-mapped-field-index") => Some("variant-ghosts-binding-name-collision".into()),
        CaseOutcome::Rejected(m) if m.contains("panic") => Some("panic-is-C16".into()),
        _ => None,
    }
}

/// Two counterparts: default and dedicated variant-level instructions (type_hint, rename) and payload renames, in
/// either order — the dedicated one must win for its counterpart, the default one for the other.
pub struct Dedication;

fn gen_dedication(t: &mut Tape) -> E2Case {
    use std::fmt::Write;
    let cps = ["DA", "DB"];
    let nv = 2 + t.below(3);
    let mut labels: Vec<String> = vec![format!("variants:{}", nv)];
    let mut s_attr = String::new();
    let mut s_plain = String::new();
    let mut d_defs = [String::new(), String::new()];
    let mut from_arms = [String::new(), String::new()];
    let mut into_arms = [String::new(), String::new()];
    let mut d_vals = [vec![], vec![]];
    let mut s_vals: Vec<String> = vec![];
    let mut seed = 100i64;
    let mut next = || {
        seed += 17;
        seed
    };
    for vi in 0..nv {
        let named = vi > 0 && t.chance(2, 3);
        let nf = if named { 1 + t.below(2) } else { 0 };
        let fnames: Vec<String> = (0..nf).map(|i| ["a", "b"][i].to_string()).collect();
        let vname = format!("V{}", vi);
        // per counterpart: variant name, form (true = tuple), member names
        let mut dname = [vname.clone(), vname.clone()];
        let mut tuple_form = [false, false];
        let mut mnames: [Vec<String>; 2] = [fnames.clone(), fnames.clone()];
        for c in 0..2 {
            if vi > 0 && t.chance(1, 3) {
                dname[c] = format!("W{}{}", vi, ["a", "b"][c]);
            }
            if named && t.chance(1, 3) {
                tuple_form[c] = true;
            }
        }
        let any_tuple = tuple_form[0] || tuple_form[1];
        if named && !any_tuple {
            for c in 0..2 {
                for i in 0..nf {
                    if t.chance(1, 3) {
                        mnames[c][i] = format!("{}{}", ["x", "y"][i], ["a", "b"][c]);
                    }
                }
            }
        } else if named {
            // renames only for the struct-form counterpart, and then dedicated
            for c in 0..2 {
                if !tuple_form[c] {
                    for i in 0..nf {
                        if t.chance(1, 3) {
                            mnames[c][i] = format!("{}{}", ["x", "y"][i], ["a", "b"][c]);
                        }
                    }
                }
            }
        }
        // ---- instructions
        let mut va: Vec<String> = vec![];
        let order_default_first = t.chance(2, 3);
        let mut push_pair = |va: &mut Vec<String>, default: Option<String>, dedicated: Vec<String>| {
            let mut items: Vec<String> = vec![];
            if order_default_first {
                items.extend(default);
                items.extend(dedicated);
            } else {
                items.extend(dedicated);
                items.extend(default);
            }
            va.extend(items);
        };
        if named && tuple_form[0] != tuple_form[1] {
            labels.push("type_hint:default+dedicated".into());
            // one form is said by the default hint, the other by a dedicated one
            let dflt = t.below(2);
            let hint = |tuple: bool| if tuple { "as ()" } else { "as {}" };
            push_pair(&mut va, Some(format!("#[type_hint({})]", hint(tuple_form[dflt]))), vec![format!("#[type_hint({}| {})]", cps[1 - dflt], hint(tuple_form[1 - dflt]))]);
        } else if named && tuple_form[0] {
            va.push("#[type_hint(as ())]".into());
        }
        if dname[0] != vname || dname[1] != vname {
            if dname[0] == dname[1] {
                va.push(format!("#[map({})]", dname[0]));
            } else {
                labels.push("variant-rename:default+dedicated".into());
                let dflt = t.below(2);
                let default = if dname[dflt] != vname || t.coin() { Some(format!("#[map({})]", dname[dflt])) } else { None };
                let other = 1 - dflt;
                // the other counterpart needs its own instruction whenever a default exists or its name differs
                let dedicated = if default.is_some() || dname[other] != vname { vec![format!("#[map({}| {})]", cps[other], dname[other])] } else { vec![] };
                push_pair(&mut va, default, dedicated);
            }
        }
        let mut fa: Vec<String> = vec![String::new(); nf];
        for i in 0..nf {
            let (m0, m1) = (mnames[0][i].clone(), mnames[1][i].clone());
            if m0 == fnames[i] && m1 == fnames[i] {
                continue;
            }
            if any_tuple {
                for c in 0..2 {
                    if !tuple_form[c] && mnames[c][i] != fnames[i] {
                        let _ = write!(fa[i], "#[map({}| {})] ", cps[c], mnames[c][i]);
                    }
                }
            } else if m0 == m1 {
                let _ = write!(fa[i], "#[map({})] ", m0);
            } else {
                labels.push("payload-rename:default+dedicated".into());
                let dflt = t.below(2);
                let other = 1 - dflt;
                let default = format!("#[map({})] ", mnames[dflt][i]);
                let dedicated = format!("#[map({}| {})] ", cps[other], mnames[other][i]);
                if t.chance(2, 3) {
                    let _ = write!(fa[i], "{}{}", default, dedicated);
                } else {
                    let _ = write!(fa[i], "{}{}", dedicated, default);
                }
            }
        }
        // ---- definitions
        let payload = |names: &[String], tuple: bool, attrs: Option<&Vec<String>>| -> String {
            if names.is_empty() {
                String::new()
            } else if tuple {
                format!("({})", names.iter().map(|_| "i64,").collect::<Vec<_>>().join(" "))
            } else {
                format!(" {{ {} }}", names.iter().enumerate().map(|(i, n)| format!("{}{}: i64,", attrs.map(|a| a[i].clone()).unwrap_or_default(), n)).collect::<Vec<_>>().join(" "))
            }
        };
        let _ = write!(s_attr, "{} {}{}, ", va.join(" "), vname, payload(&fnames, false, Some(&fa)));
        let _ = write!(s_plain, "{}{}, ", vname, payload(&fnames, false, None));
        let svals: Vec<i64> = (0..nf).map(|_| next()).collect();
        let s_lit = if nf == 0 { format!("S::{}", vname) } else { format!("S::{} {{ {} }}", vname, fnames.iter().zip(&svals).map(|(n, v)| format!("{}: {}", n, v)).collect::<Vec<_>>().join(", ")) };
        s_vals.push(s_lit);
        for c in 0..2 {
            let _ = write!(d_defs[c], "{}{}, ", dname[c], payload(&mnames[c], tuple_form[c], None));
            let pat = |prefix: &str| -> String {
                if nf == 0 {
                    format!("{}::{}", cps[c], dname[c])
                } else if tuple_form[c] {
                    format!("{}::{}({})", cps[c], dname[c], (0..nf).map(|i| format!("{}{},", prefix, i)).collect::<Vec<_>>().join(" "))
                } else {
                    format!("{}::{} {{ {} }}", cps[c], dname[c], (0..nf).map(|i| format!("{}: {}{}", mnames[c][i], prefix, i)).collect::<Vec<_>>().join(", "))
                }
            };
            let s_from = if nf == 0 { format!("S::{}", vname) } else { format!("S::{} {{ {} }}", vname, (0..nf).map(|i| format!("{}: *p{}", fnames[i], i)).collect::<Vec<_>>().join(", ")) };
            let _ = write!(from_arms[c], "{} => {}, ", pat("p"), s_from);
            let s_pat = if nf == 0 { format!("S::{}", vname) } else { format!("S::{} {{ {} }}", vname, (0..nf).map(|i| format!("{}: q{}", fnames[i], i)).collect::<Vec<_>>().join(", ")) };
            let d_lit = |vals: &dyn Fn(usize) -> String| -> String {
                if nf == 0 {
                    format!("{}::{}", cps[c], dname[c])
                } else if tuple_form[c] {
                    format!("{}::{}({})", cps[c], dname[c], (0..nf).map(|i| format!("{},", vals(i))).collect::<Vec<_>>().join(" "))
                } else {
                    format!("{}::{} {{ {} }}", cps[c], dname[c], (0..nf).map(|i| format!("{}: {}", mnames[c][i], vals(i))).collect::<Vec<_>>().join(", "))
                }
            };
            let _ = write!(into_arms[c], "{} => {}, ", s_pat, d_lit(&|i| format!("*q{}", i)));
            let dv: Vec<i64> = (0..nf).map(|_| next()).collect();
            d_vals[c].push(d_lit(&|i| format!("{}", dv[i])));
        }
    }
    let names = ["map_owned", "from_owned+owned_into"];
    let mut type_attrs = String::new();
    for c in 0..2 {
        if *t.pick(&names) == "map_owned" {
            let _ = write!(type_attrs, "#[map_owned({})]\n", cps[c]);
        } else {
            let _ = write!(type_attrs, "#[from_owned({})]\n#[owned_into({})]\n", cps[c], cps[c]);
        }
    }
    let derive_input = format!("{}pub enum S {{ {} }}", type_attrs, s_attr);
    let mut h = String::new();
    let _ = write!(h, "#[derive(Debug, Clone, PartialEq)] pub enum S {{ {} }}\n", s_plain);
    for c in 0..2 {
        let _ = write!(h, "#[derive(Debug, Clone, PartialEq)] pub enum {} {{ {} }}\n", cps[c], d_defs[c]);
        let _ = write!(h, "pub fn ref_from_{}(v: &{}) -> S {{ match v {{ {} }} }}\npub fn ref_into_{}(v: &S) -> {} {{ match v {{ {} }} }}\n", cps[c], cps[c], from_arms[c], cps[c], cps[c], into_arms[c]);
        let _ = write!(h, "pub fn vals_{}() -> Vec<{}> {{ vec![{}] }}\n", cps[c], cps[c], d_vals[c].join(", "));
    }
    let _ = write!(h, "pub fn s_vals() -> Vec<S> {{ vec![{}] }}\n", s_vals.join(", "));
    let mut r = String::new();
    r.push_str("fn chk<T: core::fmt::Debug + PartialEq>(out: &mut Vec<String>, fl: &str, got: &T, want: &T) { if got == want { out.push(format!(\"{} OK\", fl)); } else { out.push(format!(\"{} MISMATCH got={:?} want={:?}\", fl, got, want)); } }\n");
    r.push_str("pub fn run(out: &mut Vec<String>) {\n");
    for c in 0..2 {
        let _ = write!(r, "    for (i, v) in vals_{c}().into_iter().enumerate() {{ let want = ref_from_{c}(&v); let got: S = ::core::convert::From::from(v); chk(out, &format!(\"{c}:from_owned#{{}}\", i), &got, &want); }}\n", c = cps[c]);
        let _ = write!(r, "    for (i, v) in s_vals().into_iter().enumerate() {{ let want = ref_into_{c}(&v); let got: {c} = ::core::convert::Into::into(v); chk(out, &format!(\"{c}:owned_into#{{}}\", i), &got, &want); }}\n", c = cps[c]);
    }
    r.push_str("}\n");
    let nontrivial = labels.iter().any(|l| l.contains("default+dedicated"));
    E2Case { harness_src: h, derives: vec![derive_input.clone()], run_src: r, key: derive_input, labels, nontrivial, facts: vec![] }
}

impl E2Part for Dedication {
    fn name(&self) -> &'static str {
        "dedication"
    }
    fn prop(&self) -> &'static str {
        "C02"
    }
    fn rule(&self) -> String {
        "Enum S mapped (map_owned or from_owned + owned_into) to two counterpart enums DA and DB that differ per variant in variant name, in form (struct-form vs tuple-form, said through a default #[type_hint] for one counterpart and a dedicated #[type_hint(DB| ..)] for the other) and in payload member names (default #[map(x)] + dedicated #[map(DB| y)]), the default instruction written before or after the dedicated one. Oracle: reference match functions per counterpart; every variant of each source enum is converted and compared. Non-trivial = some variant carries a default together with a dedicated instruction; distinct by derive-input text.".into()
    }
    fn cases(&self, tier: Tier) -> usize {
        match tier {
            Tier::Quick => 2_400,
            Tier::Thorough => 24_000,
        }
    }
    fn mode(&self) -> Mode {
        Mode::Run
    }
    fn gen(&self, tape: &[u16]) -> E2Case {
        let mut t = Tape::new(tape);
        gen_dedication(&mut t)
    }
    fn sig(&self, case: &E2Case, outcome: &CaseOutcome) -> Option<String> {
        enum_sig(case, outcome)
    }
}

pub fn e2_parts() -> Vec<Box<dyn E2Part>> {
    vec![Box::new(Enums), Box::new(Dedication)]
}
