//! C11 — generics, lifetimes and where-clauses are carried so the impl type-checks.
//!
//! Differential, compile-only: the harness writes, for twin types S2 / D2 with the same definitions, the impls
//! a user would write by hand with headers rendered from the property text (params declared once, applied in
//! argument form, missing lifetimes declared, 'o2o: .. for by-ref kinds, the where-clause attached).  If that
//! reference does not type-check the case is a generator bug (discarded); if it does and the pasted o2o impls
//! for S / D do not, that is a violation.  A use-site function converts from a local, non-'static borrow
//! through every by-reference impl.

use crate::dsl::*;
use crate::e2::{CaseOutcome, E2Case, E2Part, Mode};
use crate::runner::Tier;
use crate::tape::Tape;
use std::fmt::Write;

pub struct Generics;

#[derive(Clone, Debug)]
struct TyParam {
    name: String,
    /// inline bound on the struct (e.g. Copy)
    bound: Option<&'static str>,
    default: Option<&'static str>,
}

fn gen_case(t: &mut Tape) -> E2Case {
    let mut labels = vec![];
    // ---- parameters of S ------------------------------------------------------------------------
    let n_lt = t.weighted(&[3, 3, 1]);
    let lts: Vec<String> = (0..n_lt).map(|i| ["'a", "'b"][i].to_string()).collect();
    let n_ty = t.weighted(&[1, 4, 2]);
    let mut tys: Vec<TyParam> = vec![];
    for i in 0..n_ty {
        let bound = match t.below(4) {
            0 => Some("Copy"),
            1 => Some("Clone"),
            _ => None,
        };
        let default = if i == n_ty - 1 && t.chance(1, 4) { Some("i32") } else { None };
        tys.push(TyParam { name: ["T", "U"][i].to_string(), bound, default });
    }
    let has_const = t.chance(1, 3) && n_ty > 0;
    let const_default = has_const && t.chance(1, 3) && tys.last().map_or(true, |x| x.default.is_some() || true);
    if n_lt > 0 {
        labels.push(format!("lifetimes:{}", n_lt));
    }
    if tys.iter().any(|x| x.bound.is_some()) {
        labels.push("inline-bound".into());
    }
    if tys.iter().any(|x| x.default.is_some()) || const_default {
        labels.push("defaulted-param".into());
    }
    if has_const {
        labels.push("const-param".into());
    }
    // declaration order: lifetimes, then types and the const in a tape-chosen order (defaults must trail)
    let mut decl: Vec<String> = lts.clone();
    let mut rest: Vec<(String, bool)> = tys.iter().map(|p| (format!("{}{}{}", p.name, p.bound.map(|b| format!(": {}", b)).unwrap_or_default(), p.default.map(|d| format!(" = {}", d)).unwrap_or_default()), p.default.is_some())).collect();
    if has_const {
        let c = (format!("const N: usize{}", if const_default { " = 2" } else { "" }), const_default);
        let pos = t.below(rest.len() + 1);
        rest.insert(pos, c);
    }
    // defaulted parameters last
    rest.sort_by_key(|x| x.1);
    decl.extend(rest.iter().map(|x| x.0.clone()));
    let args: Vec<String> = lts.iter().cloned().chain(rest.iter().map(|x| x.0.split(|c| c == ':' || c == '=').next().unwrap().trim().trim_start_matches("const ").to_string())).collect();
    let decl_no_default: Vec<String> = lts.iter().cloned().chain(rest.iter().map(|x| x.0.split('=').next().unwrap().trim().to_string())).collect();
    let angle = |v: &[String]| if v.is_empty() { String::new() } else { format!("<{}>", v.join(", ")) };

    // ---- fields -----------------------------------------------------------------------------------
    // (name, type text, needs clone for by-ref unless Copy)
    let mut fields: Vec<(String, String, bool)> = vec![("n".into(), "i32".into(), false)];
    for p in &tys {
        let copy = p.bound == Some("Copy");
        match t.below(3) {
            0 => fields.push((format!("f{}", p.name.to_lowercase()), p.name.clone(), !copy)),
            1 if n_lt > 0 => fields.push((format!("r{}", p.name.to_lowercase()), format!("&{} {}", lts[t.below(n_lt)], p.name), false)),
            _ if has_const => fields.push((format!("arr{}", p.name.to_lowercase()), format!("[{}; N]", p.name), !copy)),
            _ => fields.push((format!("f{}", p.name.to_lowercase()), p.name.clone(), !copy)),
        }
    }
    // every lifetime / type parameter must be used
    for (i, l) in lts.iter().enumerate() {
        if !fields.iter().any(|f| f.1.contains(l.as_str())) {
            fields.push((format!("s{}", i), format!("&{} str", l), false));
        }
    }
    for p in &tys {
        if !fields.iter().any(|f| f.1.split(|c: char| !c.is_alphanumeric()).any(|w| w == p.name)) {
            fields.push((format!("x{}", p.name.to_lowercase()), p.name.clone(), p.bound != Some("Copy")));
        }
    }
    if has_const && !fields.iter().any(|f| f.1.contains("; N]")) {
        fields.push(("arr".into(), "[u8; N]".into(), false));
    }

    // ---- counterpart: same parameters, possibly an extra lifetime that only the counterpart has ------
    let extra_lt = t.chance(1, 3);
    let extra_twice = extra_lt && t.chance(1, 3);
    if extra_lt {
        labels.push("counterpart-only-lifetime".into());
    }
    if extra_twice {
        labels.push("counterpart-only-lifetime-used-twice".into());
    }
    // the counterpart declares 'x (and 'y); its path in the instruction passes 'x (and 'x again)
    let d_decl: Vec<String> = lts.iter().cloned().chain(if extra_twice { vec!["'x".to_string(), "'y".to_string()] } else if extra_lt { vec!["'x".to_string()] } else { vec![] }).chain(rest.iter().map(|x| x.0.split('=').next().unwrap().trim().to_string())).collect();
    let d_args: Vec<String> = lts.iter().cloned().chain(if extra_twice { vec!["'x".to_string(), "'x".to_string()] } else if extra_lt { vec!["'x".to_string()] } else { vec![] }).chain(args.iter().skip(lts.len()).cloned()).collect();
    let turbofish = t.chance(1, 4) && !d_args.is_empty();
    let d_path = |name: &str| format!("{}{}{}", name, if turbofish { "::" } else { "" }, angle(&d_args));

    // ---- kinds and where clauses ---------------------------------------------------------------------
    let mut cells = [[false; 6]; 2];
    let mut any = false;
    for group in [[FO, FR], [OI, RI], [OIE, RIE]] {
        if !t.chance(3, 4) {
            continue;
        }
        let f = t.chance(1, 4) as usize;
        for k in group {
            if t.chance(3, 4) {
                cells[f][k] = true;
                any = true;
            }
        }
    }
    if !any {
        cells[0][FR] = true;
    }
    // every fifth case: owned kinds only for D, so that a second counterpart with a dedicated where clause can be added
    if t.chance(1, 5) {
        for f in 0..2 {
            cells[f][FR] = false;
            cells[f][RI] = false;
            cells[f][RIE] = false;
        }
        if !(0..2).any(|f| cells[f].iter().any(|x| *x)) {
            cells[0][FO] = true;
        }
    }
    let has_ref = (0..2).any(|f| cells[f][FR] || cells[f][RI] || cells[f][RIE]);
    // members that are not Copy need ~.clone() in by-ref kinds, which needs `T: Clone`
    let need_clone: Vec<String> = tys.iter().filter(|p| p.bound.is_none() && has_ref && fields.iter().any(|f| f.2 && f.1.split(|c: char| !c.is_alphanumeric()).any(|w| w == p.name))).map(|p| p.name.clone()).collect();
    let where_preds: Vec<String> = need_clone.iter().map(|n| format!("{}: Clone", n)).collect();
    let dedicated_where = !where_preds.is_empty() && t.chance(1, 3);
    if !where_preds.is_empty() {
        labels.push(if dedicated_where { "where_clause:dedicated".into() } else { "where_clause:default".into() });
    }

    // ---- render one type family (S/D with o2o attributes, or S2/D2 plain + hand-written impls) -------
    let struct_def = |name: &str, params: &[String], fattrs: &dyn Fn(usize) -> String, extra_field: bool| -> String {
        let mut s = format!("pub struct {}{} {{ ", name, angle(params));
        for (i, f) in fields.iter().enumerate() {
            let _ = write!(s, "{}pub {}: {}, ", fattrs(i), f.0, f.1);
        }
        if extra_field {
            s.push_str(if params.iter().any(|p| p == "'y") { "pub xlt: ::core::marker::PhantomData<(&'x (), &'y ())>, " } else { "pub xlt: ::core::marker::PhantomData<&'x ()>, " });
        }
        s.push('}');
        s
    };
    // o2o side
    let mut type_attrs = String::new();
    for f in 0..2 {
        if cells[f].iter().any(|x| *x) {
            let names: Vec<String> = if extra_lt {
                let mut v = vec![];
                for group in [[FO, FR], [OI, RI], [OIE, RIE]] {
                    let mut c = [false; 6];
                    for k in group {
                        c[k] = cells[f][k];
                    }
                    if c.iter().any(|x| *x) {
                        v.extend(crate::gen::cover_cells(t, c, f == 1));
                    }
                }
                v
            } else {
                crate::gen::cover_cells(t, cells[f], f == 1)
            };
            for name in names {
                let upd = if extra_lt && (name.contains("into") && !name.contains("existing")) { "| ..d_default()" } else { "" };
                let _ = write!(type_attrs, "#[{}({}{}{})]\n", name, d_path("D"), if f == 1 { ", E" } else { "" }, upd);
            }
        }
    }
    if !where_preds.is_empty() {
        let _ = write!(type_attrs, "#[where_clause({}{})]\n", if dedicated_where { format!("{}| ", d_path("D")) } else { String::new() }, where_preds.join(", "));
    }
    // second counterpart D3 (same definition as D): by-reference From that has to clone, justified by a *dedicated*
    // where clause, while the default where clause (for D) says something weaker; either order
    let second = !extra_lt && !has_ref && where_preds.is_empty() && tys.iter().any(|p| p.bound.is_none()) && fields.iter().any(|f| f.2);
    if second {
        labels.push("second-counterpart-dedicated-where".into());
        let unb: Vec<String> = tys.iter().filter(|p| p.bound.is_none()).map(|p| p.name.clone()).collect();
        let default_w = format!("#[where_clause({})]\n", unb.iter().map(|n| format!("{}: Sized", n)).collect::<Vec<_>>().join(", "));
        let dedicated_w = format!("#[where_clause({}| {})]\n", d_path("D3"), unb.iter().map(|n| format!("{}: Clone", n)).collect::<Vec<_>>().join(", "));
        let instr = format!("#[from_ref({})]\n", d_path("D3"));
        let mut parts = vec![default_w, dedicated_w, instr];
        t.shuffle(&mut parts);
        for p in parts {
            type_attrs.push_str(&p);
        }
    }
    let fattr = |i: usize| -> String { if fields[i].2 && (has_ref || second) { "#[from_ref(~.clone())] ".to_string().replace("from_ref", if has_ref { "map_ref" } else { "from_ref" }) } else { String::new() } };
    let derive_input = format!("{}{}", type_attrs, struct_def("S", &decl, &fattr, false));

    // ---- harness -----------------------------------------------------------------------------------
    let mut h = String::new();
    h.push_str("#[derive(Debug, Clone, PartialEq)] pub struct E(pub i64);\n");
    let none = |_: usize| String::new();
    let _ = write!(h, "{}\n{}\n", struct_def("S", &decl, &none, false), struct_def("D", &d_decl, &none, extra_lt));
    let _ = write!(h, "{}\n{}\n", struct_def("S2", &decl, &none, false), struct_def("D2", &d_decl, &none, extra_lt));
    if second {
        let _ = write!(h, "{}\n", struct_def("D3", &d_decl, &none, false));
    }
    if extra_lt {
        // the counterpart has a member S does not know: Into takes it from ..d_default()
        let decl_as_args: Vec<String> = d_decl.iter().map(|p| p.split(':').next().unwrap().trim().trim_start_matches("const ").to_string()).collect();
        let body = |name: &str| format!("pub fn {}_default<{}>() -> {}{} {{ unimplemented!() }}\n", name.to_lowercase(), d_decl.join(", "), name, angle(&decl_as_args));
        h.push_str(&body("D"));
        h.push_str(&body("D2"));
    }
    // hand-written reference impls for S2 / D2
    let s2 = format!("S2{}", angle(&args));
    let d2 = format!("D2{}", angle(&d_args));
    let wh = if where_preds.is_empty() { String::new() } else { format!(" where {}", where_preds.join(", ")) };
    let missing: Vec<String> = if extra_lt { vec!["'x".to_string()] } else { vec![] };
    let impl_params = |by_ref: bool, from: bool| -> String {
        // declared once, without defaults; lifetimes that appear only in the counterpart's path are declared too;
        // by-ref kinds between types with lifetime parameters get a fresh 'o2o that outlives the relevant lifetimes
        let mut p: Vec<String> = lts.clone();
        p.extend(missing.iter().cloned());
        let rel: Vec<String> = if from { lts.clone() } else { lts.iter().cloned().chain(missing.iter().cloned()).collect() };
        if by_ref && !rel.is_empty() {
            p.push(format!("'o2o: {}", rel.join(" + ")));
        }
        p.extend(decl_no_default.iter().skip(lts.len()).cloned());
        angle(&p)
    };
    let r = |by_ref: bool, from: bool| -> String {
        let rel_nonempty = if from { !lts.is_empty() } else { !lts.is_empty() || extra_lt };
        if !by_ref {
            String::new()
        } else if rel_nonempty {
            "&'o2o ".to_string()
        } else {
            "&".to_string()
        }
    };
    let from_body = |by_ref: bool| -> String { format!("S2 {{ {} }}", fields.iter().map(|f| format!("{}: value.{}{}", f.0, f.0, if by_ref && f.2 { ".clone()" } else { "" })).collect::<Vec<_>>().join(", ")) };
    let into_body = |by_ref: bool| -> String { format!("D2 {{ {}{} }}", fields.iter().map(|f| format!("{}: self.{}{}", f.0, f.0, if by_ref && f.2 { ".clone()" } else { "" })).collect::<Vec<_>>().join(", "), if extra_lt { ", ..d2_default()" } else { "" }) };
    let ie_body = |by_ref: bool| -> String { fields.iter().map(|f| format!("other.{} = self.{}{};", f.0, f.0, if by_ref && f.2 { ".clone()" } else { "" })).collect::<Vec<_>>().join(" ") };
    for (k, f) in [(FO, false), (FR, false), (OI, false), (RI, false), (OIE, false), (RIE, false), (FO, true), (FR, true), (OI, true), (RI, true), (OIE, true), (RIE, true)] {
        if !cells[f as usize][k] {
            continue;
        }
        let by_ref = k == FR || k == RI || k == RIE;
        let item = match (k, f) {
            (FO, false) | (FR, false) => format!("impl{} ::core::convert::From<{}{}> for {}{} {{ fn from(value: {}{}) -> {} {{ {} }} }}", impl_params(by_ref, true), r(by_ref, true), d2, s2, wh, r(by_ref, true), d2, s2, from_body(by_ref)),
            (FO, true) | (FR, true) => format!("impl{} ::core::convert::TryFrom<{}{}> for {}{} {{ type Error = E; fn try_from(value: {}{}) -> ::core::result::Result<{}, E> {{ Ok({}) }} }}", impl_params(by_ref, true), r(by_ref, true), d2, s2, wh, r(by_ref, true), d2, s2, from_body(by_ref)),
            (OI, false) | (RI, false) => format!("impl{} ::core::convert::Into<{}> for {}{}{} {{ fn into(self) -> {} {{ {} }} }}", impl_params(by_ref, false), d2, r(by_ref, false), s2, wh, d2, into_body(by_ref)),
            (OI, true) | (RI, true) => format!("impl{} ::core::convert::TryInto<{}> for {}{}{} {{ type Error = E; fn try_into(self) -> ::core::result::Result<{}, E> {{ Ok({}) }} }}", impl_params(by_ref, false), d2, r(by_ref, false), s2, wh, d2, into_body(by_ref)),
            (OIE, false) | (RIE, false) => format!("impl{} o2o::traits::IntoExisting<{}> for {}{}{} {{ fn into_existing(self, other: &mut {}) {{ {} }} }}", impl_params(by_ref, false), d2, r(by_ref, false), s2, wh, d2, ie_body(by_ref)),
            _ => format!("impl{} o2o::traits::TryIntoExisting<{}> for {}{}{} {{ type Error = E; fn try_into_existing(self, other: &mut {}) -> ::core::result::Result<(), E> {{ {} Ok(()) }} }}", impl_params(by_ref, false), d2, r(by_ref, false), s2, wh, d2, ie_body(by_ref)),
        };
        let _ = write!(h, "{}\n", item);
    }

    // ---- use site: a local, non-'static borrow goes through every by-ref impl -------------------------
    let mut run = String::new();
    let mut fn_params: Vec<String> = vec![];
    if !lts.is_empty() || extra_lt {
        fn_params.push("'q".to_string());
    }
    fn_params.extend(decl_no_default.iter().skip(lts.len()).cloned());
    let bounds: Vec<String> = tys.iter().filter(|p| need_clone.contains(&p.name)).map(|p| format!("{}: Clone", p.name)).collect();
    let fwh = if bounds.is_empty() { String::new() } else { format!(" where {}", bounds.join(", ")) };
    let q = |v: &[String]| -> Vec<String> { v.iter().map(|a| if a.starts_with('\'') { "'q".to_string() } else { a.clone() }).collect() };
    let s_ty = format!("S{}", angle(&q(&args)));
    let d_ty = format!("D{}", angle(&q(&d_args)));
    let bq = if !lts.is_empty() || extra_lt { "&'q " } else { "&" };
    let _ = write!(run, "pub fn run() {{}}\n");
    for (k, f) in [(FO, false), (FR, false), (OI, false), (RI, false), (OIE, false), (RIE, false), (FO, true), (FR, true), (OI, true), (RI, true), (OIE, true), (RIE, true)] {
        if !cells[f as usize][k] {
            continue;
        }
        let name = format!("use_{}", basic_name(k, f));
        let body = match (k, f) {
            (FO, false) => format!("pub fn {}{}(d: {}) -> {}{} {{ ::core::convert::From::from(d) }}", name, angle(&fn_params), d_ty, s_ty, fwh),
            (FR, false) => format!("pub fn {}{}(d: {}{}) -> {}{} {{ let s: {} = ::core::convert::From::from(d); s }}", name, angle(&fn_params), bq, d_ty, s_ty, fwh, s_ty),
            (FO, true) => format!("pub fn {}{}(d: {}) -> ::core::result::Result<{}, E>{} {{ ::core::convert::TryFrom::try_from(d) }}", name, angle(&fn_params), d_ty, s_ty, fwh),
            (FR, true) => format!("pub fn {}{}(d: {}{}) -> ::core::result::Result<{}, E>{} {{ let s: ::core::result::Result<{}, E> = ::core::convert::TryFrom::try_from(d); s }}", name, angle(&fn_params), bq, d_ty, s_ty, fwh, s_ty),
            (OI, false) => format!("pub fn {}{}(s: {}) -> {}{} {{ ::core::convert::Into::into(s) }}", name, angle(&fn_params), s_ty, d_ty, fwh),
            (RI, false) => format!("pub fn {}{}(s: {}{}) -> {}{} {{ let d: {} = ::core::convert::Into::into(s); d }}", name, angle(&fn_params), bq, s_ty, d_ty, fwh, d_ty),
            (OI, true) => format!("pub fn {}{}(s: {}) -> ::core::result::Result<{}, E>{} {{ ::core::convert::TryInto::try_into(s) }}", name, angle(&fn_params), s_ty, d_ty, fwh),
            (RI, true) => format!("pub fn {}{}(s: {}{}) -> ::core::result::Result<{}, E>{} {{ let d: ::core::result::Result<{}, E> = ::core::convert::TryInto::try_into(s); d }}", name, angle(&fn_params), bq, s_ty, d_ty, fwh, d_ty),
            (OIE, false) => format!("pub fn {}{}(s: {}, d: &mut {}){} {{ o2o::traits::IntoExisting::into_existing(s, d) }}", name, angle(&fn_params), s_ty, d_ty, fwh),
            (RIE, false) => format!("pub fn {}{}(s: {}{}, d: &mut {}){} {{ o2o::traits::IntoExisting::into_existing(s, d) }}", name, angle(&fn_params), bq, s_ty, d_ty, fwh),
            (OIE, true) => format!("pub fn {}{}(s: {}, d: &mut {}) -> ::core::result::Result<(), E>{} {{ o2o::traits::TryIntoExisting::try_into_existing(s, d) }}", name, angle(&fn_params), s_ty, d_ty, fwh),
            _ => format!("pub fn {}{}(s: {}{}, d: &mut {}) -> ::core::result::Result<(), E>{} {{ o2o::traits::TryIntoExisting::try_into_existing(s, d) }}", name, angle(&fn_params), bq, s_ty, d_ty, fwh),
        };
        let _ = write!(run, "{}\n", body);
    }
    let nontrivial = tys.iter().any(|p| p.bound.is_some() || p.default.is_some()) || has_const || (n_lt >= 1 && n_ty >= 1);
    if has_ref {
        labels.push("by-ref".into());
    }
    let facts = vec![];
    E2Case { harness_src: h, derives: vec![derive_input.clone()], run_src: run, key: derive_input, labels, nontrivial, facts }
}

impl E2Part for Generics {
    fn name(&self) -> &'static str {
        "generics"
    }
    fn prop(&self) -> &'static str {
        "C11"
    }
    fn rule(&self) -> String {
        "Deriving struct S with a generated parameter list: 0-2 lifetimes, 0-2 type parameters with or without inline bounds (Copy / Clone) and defaults, an optional const parameter (with or without default) in a tape-chosen position; members of type T, &'a T, [T; N], &'a str; counterpart path D<..> / D::<..> with the same arguments and, in 1/4 of the cases, a lifetime 'x that appears only in the counterpart's path; default or dedicated #[where_clause(T: Clone)] when a by-reference kind has to clone a T; a random subset of the 12 kinds (one fallibility per direction). Oracle (differential, type-check only): hand-written impls for twin types S2 / D2 with headers rendered from the property text must type-check (else the case is discarded as a generator bug) and then the pasted o2o impls must too, and a use-site fn per kind converts from a local, non-'static borrow through every by-reference impl. Non-trivial = a bounded, const or defaulted parameter, or a lifetime together with a type parameter; distinct by derive-input text.".into()
    }
    fn cases(&self, tier: Tier) -> usize {
        match tier {
            Tier::Quick => 3_200,
            Tier::Thorough => 32_000,
        }
    }
    fn mode(&self) -> Mode {
        Mode::Check
    }
    fn gen(&self, tape: &[u16]) -> E2Case {
        let mut t = Tape::new(tape);
        gen_case(&mut t)
    }
    fn sig(&self, _case: &E2Case, outcome: &CaseOutcome) -> Option<String> {
        match outcome {
            CaseOutcome::Rejected(m) if m.contains("panic") => Some("panic-is-C16".into()),
            _ => None,
        }
    }
}

/// README "Lifetimes": the result borrows from the source, so the fresh 'o2o lifetime must outlive the
/// lifetimes of the type that is being produced.
pub struct Borrowing;

fn gen_borrowing(t: &mut Tape) -> E2Case {
    let nl = 1 + t.below(2);
    let lts: Vec<&str> = ["'a", "'b"][..nl].to_vec();
    let from = t.coin();
    let fallible = t.chance(1, 3);
    let extra_t = t.chance(1, 3);
    let mut labels = vec![format!("lifetimes:{}", nl), if from { "from_ref".to_string() } else { "ref_into".to_string() }];
    if fallible {
        labels.push("fallible".into());
    }
    let tparam = if extra_t { ", T: Copy" } else { "" };
    let targ = if extra_t { ", T" } else { "" };
    let tfield_attr = "";
    let tfield = if extra_t { format!("{}pub t: T, ", tfield_attr) } else { String::new() };
    let lt_list = lts.join(", ");
    let borrowed_fields = |attr: &str| -> String { lts.iter().enumerate().map(|(i, l)| format!("{}pub s{}: &{} str, ", attr, i, l)).collect() };
    let owned_fields = |attr: &str| -> String { lts.iter().enumerate().map(|(i, _)| format!("{}pub s{}: String, ", attr, i)).collect() };
    let (derive_input, harness, run) = if from {
        // #[from_ref(Owned)] struct S<'a, 'b> { #[from(~.as_str())] s0: &'a str, .. }
        let name = if fallible { "try_from_ref" } else { "from_ref" };
        let d_ty = if extra_t { "D<T>" } else { "D" };
        let di = format!("#[{}({}{})]\npub struct S<{}{}> {{ {}{} }}", name, d_ty, if fallible { ", E" } else { "" }, lt_list, tparam, borrowed_fields("#[from(~.as_str())] "), tfield);
        let h = format!(
            "#[derive(Debug, Clone, PartialEq)] pub struct E(pub i64);\npub struct S<{}{}> {{ {}{} }}\npub struct D{} {{ {}{} }}\n",
            lt_list,
            tparam,
            borrowed_fields(""),
            tfield,
            if extra_t { "<T: Copy>" } else { "" },
            owned_fields(""),
            tfield
        );
        let q_args: String = lts.iter().map(|_| "'q").collect::<Vec<_>>().join(", ");
        let r = if fallible {
            format!("pub fn run() {{}}\npub fn use_site<'q{}>(d: &'q {}) -> ::core::result::Result<S<{}{}>, E> {{ ::core::convert::TryFrom::try_from(d) }}\n", tparam, d_ty, q_args, targ)
        } else {
            format!("pub fn run() {{}}\npub fn use_site<'q{}>(d: &'q {}) -> S<{}{}> {{ ::core::convert::From::from(d) }}\n", tparam, d_ty, q_args, targ)
        };
        (di, h, r)
    } else {
        // #[ref_into(Borrowed<'a, 'b>)] struct S { #[into(~.as_str())] s0: String, .. }
        let name = if fallible { "ref_try_into" } else { "ref_into" };
        let di = format!("#[{}(D<{}{}>{})]\npub struct S{} {{ {}{} }}", name, lt_list, targ, if fallible { ", E" } else { "" }, if extra_t { "<T: Copy>" } else { "" }, owned_fields("#[into(~.as_str())] "), tfield);
        let h = format!(
            "#[derive(Debug, Clone, PartialEq)] pub struct E(pub i64);\npub struct S{} {{ {}{} }}\npub struct D<{}{}> {{ {}{} }}\n",
            if extra_t { "<T: Copy>" } else { "" },
            owned_fields(""),
            tfield,
            lt_list,
            tparam,
            borrowed_fields(""),
            tfield
        );
        let q_args: String = lts.iter().map(|_| "'q").collect::<Vec<_>>().join(", ");
        let s_ty = if extra_t { "S<T>" } else { "S" };
        let r = if fallible {
            format!("pub fn run() {{}}\npub fn use_site<'q{}>(s: &'q {}) -> ::core::result::Result<D<{}{}>, E> {{ ::core::convert::TryInto::try_into(s) }}\n", tparam, s_ty, q_args, targ)
        } else {
            format!("pub fn run() {{}}\npub fn use_site<'q{}>(s: &'q {}) -> D<{}{}> {{ ::core::convert::Into::into(s) }}\n", tparam, s_ty, q_args, targ)
        };
        (di, h, r)
    };
    E2Case { harness_src: harness, derives: vec![derive_input.clone()], run_src: run, key: derive_input, labels, nontrivial: true, facts: vec![] }
}

impl E2Part for Borrowing {
    fn name(&self) -> &'static str {
        "borrowing"
    }
    fn prop(&self) -> &'static str {
        "C11"
    }
    fn rule(&self) -> String {
        "README \"Lifetimes\" shapes with variations: the produced type has 1-2 lifetime parameters (plus optionally a bounded type parameter) and its members borrow from the source (#[from(~.as_str())] under from_ref / try_from_ref, or the mirror #[into(~.as_str())] under ref_into / ref_try_into with lifetimes that appear only in the counterpart's path). Oracle (type-check only): the pasted impl must type-check, which it does only if the fresh 'o2o lifetime outlives every lifetime of the produced type, and a use-site fn converts a caller-provided, non-'static borrow &'q Source into Target<'q, ..>. All cases non-trivial; distinct by derive-input text (16 shapes; exhaustive over them).".into()
    }
    fn cases(&self, tier: Tier) -> usize {
        match tier {
            Tier::Quick => 192,
            Tier::Thorough => 768,
        }
    }
    fn mode(&self) -> Mode {
        Mode::Check
    }
    fn max_tape(&self) -> usize {
        8
    }
    fn gen(&self, tape: &[u16]) -> E2Case {
        let mut t = Tape::new(tape);
        gen_borrowing(&mut t)
    }
    fn sig(&self, _case: &E2Case, _outcome: &CaseOutcome) -> Option<String> {
        None
    }
}

/// Where-clauses dedicated to counterparts that differ only in their generic arguments (or only in their path):
/// each impl must carry the clause of its own counterpart, and only that one.
pub struct WhereByCounterpart;

fn gen_where_by_counterpart(t: &mut Tape) -> E2Case {
    // counterpart A needs `T: Clone` only; counterpart B additionally `T: Default`. The use site converts with a T that is
    // Clone but not Default through A's impl: it type-checks only if A's impl carries A's clause.
    let (a_ty, b_ty, defs) = match t.below(3) {
        0 => ("W<T, i32>", "W<T, u8>", "pub struct W<T, U> { pub a: T, pub u: U }\n"),
        1 => ("W<T, i32>", "other::W<T, i32>", "pub struct W<T, U> { pub a: T, pub u: U }\npub mod other { pub struct W<T, U> { pub a: T, pub u: U } }\n"),
        _ => ("W<T, i32>", "V<T, i32>", "pub struct W<T, U> { pub a: T, pub u: U }\npub struct V<T, U> { pub a: T, pub u: U }\n"),
    };
    let a_first = t.coin();
    let default_too = t.chance(1, 3);
    let fallible = t.chance(1, 4);
    let name = if fallible { "try_from_ref" } else { "from_ref" };
    let err = if fallible { ", E" } else { "" };
    let mut labels = vec![format!("counterparts:{}-vs-{}", a_ty, b_ty), if a_first { "order:a-first".to_string() } else { "order:b-first".to_string() }];
    if default_too {
        labels.push("default-where-clause-present".into());
    }
    let wa = format!("#[where_clause({}| T: Clone)]\n", a_ty);
    let wb = format!("#[where_clause({}| T: Clone + Default)]\n", b_ty);
    let wd = if default_too { "#[where_clause(T: Sized)]\n" } else { "" };
    let ia = format!("#[{}({}{})]\n", name, a_ty, err);
    let ib = format!("#[{}({}{})]\n", name, b_ty, err);
    let mut lines: Vec<String> = if a_first { vec![ia, ib, wa, wb] } else { vec![ib, ia, wb, wa] };
    if default_too {
        lines.insert(t.below(lines.len() + 1), wd.to_string());
    }
    if t.coin() {
        lines.swap(2, 3);
    }
    let mname = if fallible { "try_from_ref" } else { "from_ref" };
    let derive_input = format!("{}pub struct S<T> {{ #[{}(~.clone())] pub a: T, #[ghost({{ 0 }})] pub n: i32 }}", lines.concat(), mname);
    let h = format!("#[derive(Debug, Clone, PartialEq)] pub struct E(pub i64);\n#[derive(Clone)] pub struct OnlyClone(pub i64);\n{}pub struct S<T> {{ pub a: T, pub n: i32 }}\n", defs);
    let a_conc = a_ty.replace("T,", "OnlyClone,");
    let r = if fallible {
        format!("pub fn run() {{}}\npub fn use_site(w: &{}) -> ::core::result::Result<S<OnlyClone>, E> {{ ::core::convert::TryFrom::try_from(w) }}\n", a_conc)
    } else {
        format!("pub fn run() {{}}\npub fn use_site(w: &{}) -> S<OnlyClone> {{ ::core::convert::From::from(w) }}\n", a_conc)
    };
    E2Case { harness_src: h, derives: vec![derive_input.clone()], run_src: r, key: derive_input, labels, nontrivial: true, facts: vec![] }
}

impl E2Part for WhereByCounterpart {
    fn name(&self) -> &'static str {
        "where-by-counterpart"
    }
    fn prop(&self) -> &'static str {
        "C11"
    }
    fn rule(&self) -> String {
        "Two counterparts that differ only in a generic argument (W<T, i32> / W<T, u8>), only in their module path (W<..> / other::W<..>) or in their name, each with a dedicated #[where_clause(Type| ..)] (T: Clone for the first, T: Clone + Default for the second), optionally a default where clause as well, in either order, infallible or fallible from_ref. Oracle (type-check only): the pasted impls type-check and a use-site fn converts &W<OnlyClone, i32> (a T that is Clone but not Default) through the first counterpart's impl, which works only if that impl carries its own clause and not the other's. All cases non-trivial; distinct by derive-input text.".into()
    }
    fn cases(&self, tier: Tier) -> usize {
        match tier {
            Tier::Quick => 192,
            Tier::Thorough => 768,
        }
    }
    fn mode(&self) -> Mode {
        Mode::Check
    }
    fn max_tape(&self) -> usize {
        10
    }
    fn gen(&self, tape: &[u16]) -> E2Case {
        let mut t = Tape::new(tape);
        gen_where_by_counterpart(&mut t)
    }
    fn sig(&self, _case: &E2Case, _outcome: &CaseOutcome) -> Option<String> {
        None
    }
}

pub fn e2_parts() -> Vec<Box<dyn E2Part>> {
    vec![Box::new(Generics), Box::new(Borrowing), Box::new(WhereByCounterpart)]
}
