//! C13 — #[o2o(...)] alternative syntaxes generate the same code as bare attributes.

use crate::dsl::*;
use crate::gen::{gen_item, GenOpts};
use crate::props::util::*;
use crate::runner::{CaseReport, Ctx, Part, Tier, Verdict};
use crate::tape::Tape;
use serde_json::json;

pub struct Spellings {
    opts: GenOpts,
}

pub fn parts() -> Vec<Box<dyn Part>> {
    vec![Box::new(Spellings { opts: GenOpts { allow_repeat: false, bare_names_only: true, random_spelling: false, allow_generics: true, ..GenOpts::default() } }), Box::new(SpellingsLattice)]
}

/// Part `spellings-lattice`: the three spellings at token level over the instruction-selection lattice of C16 / C17 (about half
/// rejected inputs, misuse of many more kinds than the C15 fault classes `spellings` injects).
pub struct SpellingsLattice;

/// Content of one attribute as an entry of an `o2o(..)` list: `name(args)` stays, `o2o(list)` contributes its list.
fn list_entry(g: &proc_macro2::Group) -> proc_macro2::TokenStream {
    use proc_macro2::{Delimiter, TokenTree};
    let toks: Vec<TokenTree> = g.stream().into_iter().collect();
    match toks.as_slice() {
        [TokenTree::Ident(i), TokenTree::Group(a)] if i == "o2o" && a.delimiter() == Delimiter::Parenthesis => a.stream(),
        _ => g.stream(),
    }
}

/// Re-spell the attributes of every attribute run: `sizes` decides how many adjacent attributes go into one `#[o2o(..)]` list
/// (1 = each wrapped on its own). Tokens inside attributes are not touched.
fn respell_tokens(ts: proc_macro2::TokenStream, next_size: &mut dyn FnMut() -> usize, lists: &mut usize) -> proc_macro2::TokenStream {
    use proc_macro2::{Delimiter, Group, Ident, Punct, Spacing, Span, TokenStream, TokenTree};
    let toks: Vec<TokenTree> = ts.into_iter().collect();
    let mut out: Vec<TokenTree> = vec![];
    let mut i = 0;
    let is_attr = |i: usize| i + 1 < toks.len() && matches!(&toks[i], TokenTree::Punct(p) if p.as_char() == '#') && matches!(&toks[i + 1], TokenTree::Group(g) if g.delimiter() == Delimiter::Bracket);
    while i < toks.len() {
        if is_attr(i) {
            // a run of adjacent attributes
            let mut run: Vec<&Group> = vec![];
            while is_attr(i) {
                if let TokenTree::Group(g) = &toks[i + 1] {
                    run.push(g);
                }
                i += 2;
            }
            let mut k = 0;
            while k < run.len() {
                let size = next_size().max(1).min(run.len() - k);
                if size >= 2 {
                    *lists += 1;
                }
                let mut list = TokenStream::new();
                for (j, g) in run[k..k + size].iter().enumerate() {
                    let e = list_entry(g);
                    if e.is_empty() {
                        continue;
                    }
                    if j > 0 && !list.is_empty() {
                        list.extend([TokenTree::Punct(Punct::new(',', Spacing::Alone))]);
                    }
                    list.extend(e);
                }
                let mut content = TokenStream::new();
                content.extend([TokenTree::Ident(Ident::new("o2o", Span::call_site())), TokenTree::Group(Group::new(Delimiter::Parenthesis, list))]);
                out.push(TokenTree::Punct(Punct::new('#', Spacing::Alone)));
                out.push(TokenTree::Group(Group::new(Delimiter::Bracket, content)));
                k += size;
            }
        } else {
            match &toks[i] {
                TokenTree::Group(g) => out.push(TokenTree::Group(Group::new(g.delimiter(), respell_tokens(g.stream(), next_size, lists)))),
                other => out.push(other.clone()),
            }
            i += 1;
        }
    }
    let mut r = TokenStream::new();
    r.extend(out);
    r
}

impl Part for SpellingsLattice {
    fn name(&self) -> &'static str {
        "spellings-lattice"
    }
    fn prop(&self) -> &'static str {
        "C13"
    }
    fn rule(&self) -> String {
        "The instruction-selection lattice of C16 (bare attributes for every instruction that has a bare form, #[o2o(..)] for the others; about half of the inputs rejected). Oracle: three spellings of the same token-level input - as generated, every attribute wrapped on its own as #[o2o(x(..))], adjacent attributes grouped at random into #[o2o(a(..), b(..))] lists (attribute order kept, argument tokens untouched) - must give the same accept/reject decision and, when accepted, byte-identical token strings. Non-trivial = >= 3 attributes and >= 1 list of >= 2; distinct by input text.".into()
    }
    fn cases(&self, tier: Tier) -> usize {
        match tier {
            Tier::Quick => 48_000,
            Tier::Thorough => 800_000,
        }
    }
    fn max_tape(&self) -> usize {
        192
    }
    fn run_case(&self, tape: &[u16], ctx: &Ctx) -> CaseReport {
        let mut t = Tape::new(tape);
        let (text, mut labels) = crate::props::c16::gen_lattice(&mut t);
        let ts: proc_macro2::TokenStream = match text.parse() {
            Ok(ts) => ts,
            Err(_) => return CaseReport { key: text, nontrivial: false, labels, verdict: Verdict::Discard("input does not lex".into()) },
        };
        let nattrs = text.matches("#[").count();
        let mut l0 = 0;
        let tw = respell_tokens(ts.clone(), &mut || 1, &mut l0).to_string();
        let mut lists = 0;
        let tg = respell_tokens(ts, &mut || 1 + t.weighted(&[2, 3, 2, 1]), &mut lists).to_string();
        let (eb, ew, eg) = (expand_items(&text), expand_items(&tw), expand_items(&tg));
        let (vb, vw, vg) = (verdict_of(&eb), verdict_of(&ew), verdict_of(&eg));
        labels.push(format!("outcome:{}", vb.split(':').next().unwrap_or("")));
        let nontrivial = nattrs >= 3 && lists >= 1;
        let verdict = if vb == vw && vw == vg {
            Verdict::Pass
        } else {
            let which = if vb != vw { ("as-generated", "wrapped", &text, &tw, &vb, &vw) } else { ("as-generated", "grouped", &text, &tg, &vb, &vg) };
            let panic = [&vb, &vw, &vg].iter().any(|v| v.as_str() == "panic");
            ctx.fail_or_known(
                "C13",
                if panic { Some("panic-is-C16") } else { None },
                format!("{} and {} spellings of the same instructions differ: {} vs {}", which.0, which.1, crate::xproc::trunc(which.4, 120), crate::xproc::trunc(which.5, 120)),
                json!({"a_spelling": which.0, "a_input": which.2, "b_spelling": which.1, "b_input": which.3, "a_result": which.4, "b_result": which.5}),
            )
        };
        CaseReport { key: text, nontrivial, labels, verdict }
    }
}

#[derive(Clone, Copy)]
pub enum Mode {
    AllBare,
    EachWrapped,
}

/// Re-spell every attribute list of the item.
pub fn respell(item: &Item, mode: Mode) -> Item {
    let mut out = item.clone();
    out.for_each_attr_list_mut(&mut |_, list| {
        let mut new_list = vec![];
        for a in list.drain(..) {
            match a {
                Attr::O2o { instrs, .. } => {
                    for i in instrs {
                        new_list.push(match mode {
                            // instructions without a bare form (allow_unknown) stay wrapped
                            Mode::AllBare => Attr::auto(i),
                            Mode::EachWrapped => Attr::wrapped(vec![i]),
                        });
                    }
                }
                other => new_list.push(other),
            }
        }
        *list = new_list;
    });
    out
}

/// Random grouping of adjacent instructions into `#[o2o(a(..), b(..))]` lists, random subset left bare / wrapped.
pub fn regroup(item: &Item, t: &mut Tape) -> (Item, usize) {
    let mut out = item.clone();
    let mut lists_of_two = 0;
    out.for_each_attr_list_mut(&mut |_, list| {
        let instrs: Vec<Instr> = list.iter().flat_map(|a| a.instrs().iter().cloned()).collect();
        let mut new_list = vec![];
        let mut group: Vec<Instr> = vec![];
        for i in instrs {
            let w = if has_bare_form(&i.name()) { [2, 2, 4] } else { [0, 2, 6] };
            match t.weighted(&w) {
                0 => {
                    if !group.is_empty() {
                        if group.len() >= 2 {
                            lists_of_two += 1;
                        }
                        new_list.push(Attr::wrapped(std::mem::take(&mut group)));
                    }
                    new_list.push(Attr::bare(i));
                }
                1 => {
                    if !group.is_empty() {
                        if group.len() >= 2 {
                            lists_of_two += 1;
                        }
                        new_list.push(Attr::wrapped(std::mem::take(&mut group)));
                    }
                    new_list.push(Attr::wrapped(vec![i]));
                }
                _ => group.push(i),
            }
        }
        if !group.is_empty() {
            if group.len() >= 2 {
                lists_of_two += 1;
            }
            new_list.push(Attr::wrapped(group));
        }
        *list = new_list;
    });
    (out, lists_of_two)
}

fn verdict_of(e: &Exp) -> String {
    match e {
        Exp::Ok { text, .. } => format!("ok:{}", text),
        Exp::Unsplittable(t) => format!("ok:{}", t),
        // for rejected inputs the property fixes the accept/reject decision only
        Exp::Other(o) => o.kind().to_string(),
    }
}

impl Part for Spellings {
    fn name(&self) -> &'static str {
        "spellings"
    }
    fn prop(&self) -> &'static str {
        "C13"
    }
    fn rule(&self) -> String {
        "L1 inputs using only instructions that have a bare form (valid-mode, and lightly invalid: 1/4 of the cases get one C15 fault that is itself written with bare-capable names). Oracle: three renderings of the same AST — all bare, each instruction wrapped as #[o2o(x(..))], random grouping of adjacent instructions into #[o2o(a(..), b(..))] lists — must give the same accept/reject decision and, when accepted, byte-identical token strings. Non-trivial = >= 3 instructions and >= 1 list of >= 2; distinct by input text.".into()
    }
    fn cases(&self, tier: Tier) -> usize {
        match tier {
            Tier::Quick => 72_000,
            Tier::Thorough => 1_200_000,
        }
    }
    fn max_tape(&self) -> usize {
        320
    }
    fn run_case(&self, tape: &[u16], ctx: &Ctx) -> CaseReport {
        let mut t = Tape::new(tape);
        let (mut item, mut labels) = gen_item(&mut t, &self.opts);
        if t.chance(1, 4) {
            // lightly invalid: a fault whose instruction has a bare form
            let class = *t.pick(&[1usize, 2, 3, 4, 5, 6, 7, 8, 14, 15, 16]);
            let before = item.clone();
            if let Some(e) = crate::props::c15::inject(&mut t, &mut item, class) {
                let all_bare_capable = {
                    let mut ok = true;
                    item.for_each_attr_list(&mut |_, l| {
                        for a in l {
                            for i in a.instrs() {
                                if !has_bare_form(&i.name()) {
                                    ok = false;
                                }
                            }
                        }
                    });
                    ok
                };
                if all_bare_capable {
                    labels.push(format!("fault:{}", e.class));
                } else {
                    item = before;
                }
            }
        }
        let faulted = labels.iter().any(|l| l.starts_with("fault:"));
        if !faulted && t.chance(1, 3) {
            // #[o2o(allow_unknown)] has no bare form; in valid inputs it changes nothing, wherever it sits in a list
            if t.coin() {
                // allow_unknown first, and after it a bare attribute that is only tolerated because of it (a member instruction
                // name on the type is then taken for somebody else's attribute): stays tolerated whatever spelling follows
                item.attrs.insert(0, Attr::wrapped(vec![Instr::AllowUnknown]));
                let foreign = *t.pick(&["parent(zz)", "literal(1)", "ghost(1)", "as_type(i32)", "type_hint(as ())"]);
                let pos = 1 + t.below(item.attrs.len());
                item.attrs.insert(pos, Attr::Foreign(foreign.to_string()));
                labels.push("allow_unknown+tolerated-bare-attribute".into());
            } else {
                let pos = t.below(item.attrs.len() + 1);
                item.attrs.insert(pos, Attr::wrapped(vec![Instr::AllowUnknown]));
            }
            labels.push("allow_unknown".into());
        }
        let bare = respell(&item, Mode::AllBare);
        let wrapped = respell(&item, Mode::EachWrapped);
        let (grouped, lists) = regroup(&item, &mut t);
        let (tb, tw, tg) = (bare.render(), wrapped.render(), grouped.render());
        let (eb, ew, eg) = (expand_items(&tb), expand_items(&tw), expand_items(&tg));
        let (vb, vw, vg) = (verdict_of(&eb), verdict_of(&ew), verdict_of(&eg));
        labels.push(format!("outcome:{}", vb.split(':').next().unwrap_or("")));
        let nontrivial = item.count_instrs() >= 3 && lists >= 1;
        let verdict = if vb == vw && vw == vg {
            Verdict::Pass
        } else {
            let which = if vb != vw { ("bare", "wrapped", &tb, &tw, &vb, &vw) } else { ("bare", "grouped", &tb, &tg, &vb, &vg) };
            let panic = [&vb, &vw, &vg].iter().any(|v| v.as_str() == "panic");
            ctx.fail_or_known(
                "C13",
                if panic { Some("panic-is-C16") } else { None },
                format!("{} and {} spellings of the same instructions differ: {} vs {}", which.0, which.1, crate::xproc::trunc(which.4, 120), crate::xproc::trunc(which.5, 120)),
                json!({"a_spelling": which.0, "a_input": which.2, "b_spelling": which.1, "b_input": which.3, "a_result": which.4, "b_result": which.5}),
            )
        };
        CaseReport { key: tg, nontrivial, labels, verdict }
    }
}
