//! C13 — #[o2o(...)] alternative syntaxes generate the same code as bare attributes.

use crate::dsl::*;
use crate::gen::{gen_item, GenOpts};
use crate::props::util::*;
use crate::runner::{CaseReport, Ctx, Part, Tier, Verdict};
use crate::tape::Tape;
use serde_json::json;

pub struct Spellings {
    opts: GenOpts,
}

pub fn parts() -> Vec<Box<dyn Part>> {
    vec![Box::new(Spellings { opts: GenOpts { allow_repeat: false, bare_names_only: true, random_spelling: false, allow_generics: true, ..GenOpts::default() } })]
}

#[derive(Clone, Copy)]
pub enum Mode {
    AllBare,
    EachWrapped,
}

/// Re-spell every attribute list of the item.
pub fn respell(item: &Item, mode: Mode) -> Item {
    let mut out = item.clone();
    out.for_each_attr_list_mut(&mut |_, list| {
        let mut new_list = vec![];
        for a in list.drain(..) {
            match a {
                Attr::O2o { instrs, .. } => {
                    for i in instrs {
                        new_list.push(match mode {
                            // instructions without a bare form (allow_unknown) stay wrapped
                            Mode::AllBare => Attr::auto(i),
                            Mode::EachWrapped => Attr::wrapped(vec![i]),
                        });
                    }
                }
                other => new_list.push(other),
            }
        }
        *list = new_list;
    });
    out
}

/// Random grouping of adjacent instructions into `#[o2o(a(..), b(..))]` lists, random subset left bare / wrapped.
pub fn regroup(item: &Item, t: &mut Tape) -> (Item, usize) {
    let mut out = item.clone();
    let mut lists_of_two = 0;
    out.for_each_attr_list_mut(&mut |_, list| {
        let instrs: Vec<Instr> = list.iter().flat_map(|a| a.instrs().iter().cloned()).collect();
        let mut new_list = vec![];
        let mut group: Vec<Instr> = vec![];
        for i in instrs {
            let w = if has_bare_form(&i.name()) { [2, 2, 4] } else { [0, 2, 6] };
            match t.weighted(&w) {
                0 => {
                    if !group.is_empty() {
                        if group.len() >= 2 {
                            lists_of_two += 1;
                        }
                        new_list.push(Attr::wrapped(std::mem::take(&mut group)));
                    }
                    new_list.push(Attr::bare(i));
                }
                1 => {
                    if !group.is_empty() {
                        if group.len() >= 2 {
                            lists_of_two += 1;
                        }
                        new_list.push(Attr::wrapped(std::mem::take(&mut group)));
                    }
                    new_list.push(Attr::wrapped(vec![i]));
                }
                _ => group.push(i),
            }
        }
        if !group.is_empty() {
            if group.len() >= 2 {
                lists_of_two += 1;
            }
            new_list.push(Attr::wrapped(group));
        }
        *list = new_list;
    });
    (out, lists_of_two)
}

fn verdict_of(e: &Exp) -> String {
    match e {
        Exp::Ok { text, .. } => format!("ok:{}", text),
        Exp::Unsplittable(t) => format!("ok:{}", t),
        // for rejected inputs the property fixes the accept/reject decision only
        Exp::Other(o) => o.kind().to_string(),
    }
}

impl Part for Spellings {
    fn name(&self) -> &'static str {
        "spellings"
    }
    fn prop(&self) -> &'static str {
        "C13"
    }
    fn rule(&self) -> String {
        "L1 inputs using only instructions that have a bare form (valid-mode, and lightly invalid: 1/4 of the cases get one C15 fault that is itself written with bare-capable names). Oracle: three renderings of the same AST — all bare, each instruction wrapped as #[o2o(x(..))], random grouping of adjacent instructions into #[o2o(a(..), b(..))] lists — must give the same accept/reject decision and, when accepted, byte-identical token strings. Non-trivial = >= 3 instructions and >= 1 list of >= 2; distinct by input text.".into()
    }
    fn cases(&self, tier: Tier) -> usize {
        match tier {
            Tier::Quick => 72_000,
            Tier::Thorough => 1_200_000,
        }
    }
    fn max_tape(&self) -> usize {
        320
    }
    fn run_case(&self, tape: &[u16], ctx: &Ctx) -> CaseReport {
        let mut t = Tape::new(tape);
        let (mut item, mut labels) = gen_item(&mut t, &self.opts);
        if t.chance(1, 4) {
            // lightly invalid: a fault whose instruction has a bare form
            let class = *t.pick(&[1usize, 2, 3, 4, 5, 6, 7, 8, 14, 15, 16]);
            let before = item.clone();
            if let Some(e) = crate::props::c15::inject(&mut t, &mut item, class) {
                let all_bare_capable = {
                    let mut ok = true;
                    item.for_each_attr_list(&mut |_, l| {
                        for a in l {
                            for i in a.instrs() {
                                if !has_bare_form(&i.name()) {
                                    ok = false;
                                }
                            }
                        }
                    });
                    ok
                };
                if all_bare_capable {
                    labels.push(format!("fault:{}", e.class));
                } else {
                    item = before;
                }
            }
        }
        let faulted = labels.iter().any(|l| l.starts_with("fault:"));
        if !faulted && t.chance(1, 3) {
            // #[o2o(allow_unknown)] has no bare form; in valid inputs it changes nothing, wherever it sits in a list
            if t.coin() {
                // allow_unknown first, and after it a bare attribute that is only tolerated because of it (a member instruction
                // name on the type is then taken for somebody else's attribute): stays tolerated whatever spelling follows
                item.attrs.insert(0, Attr::wrapped(vec![Instr::AllowUnknown]));
                let foreign = *t.pick(&["parent(zz)", "literal(1)", "ghost(1)", "as_type(i32)", "type_hint(as ())"]);
                let pos = 1 + t.below(item.attrs.len());
                item.attrs.insert(pos, Attr::Foreign(foreign.to_string()));
                labels.push("allow_unknown+tolerated-bare-attribute".into());
            } else {
                let pos = t.below(item.attrs.len() + 1);
                item.attrs.insert(pos, Attr::wrapped(vec![Instr::AllowUnknown]));
            }
            labels.push("allow_unknown".into());
        }
        let bare = respell(&item, Mode::AllBare);
        let wrapped = respell(&item, Mode::EachWrapped);
        let (grouped, lists) = regroup(&item, &mut t);
        let (tb, tw, tg) = (bare.render(), wrapped.render(), grouped.render());
        let (eb, ew, eg) = (expand_items(&tb), expand_items(&tw), expand_items(&tg));
        let (vb, vw, vg) = (verdict_of(&eb), verdict_of(&ew), verdict_of(&eg));
        labels.push(format!("outcome:{}", vb.split(':').next().unwrap_or("")));
        let nontrivial = item.count_instrs() >= 3 && lists >= 1;
        let verdict = if vb == vw && vw == vg {
            Verdict::Pass
        } else {
            let which = if vb != vw { ("bare", "wrapped", &tb, &tw, &vb, &vw) } else { ("bare", "grouped", &tb, &tg, &vb, &vg) };
            let panic = [&vb, &vw, &vg].iter().any(|v| v.as_str() == "panic");
            ctx.fail_or_known(
                "C13",
                if panic { Some("panic-is-C16") } else { None },
                format!("{} and {} spellings of the same instructions differ: {} vs {}", which.0, which.1, crate::xproc::trunc(which.4, 120), crate::xproc::trunc(which.5, 120)),
                json!({"a_spelling": which.0, "a_input": which.2, "b_spelling": which.1, "b_input": which.3, "a_result": which.4, "b_result": which.5}),
            )
        };
        CaseReport { key: tg, nontrivial, labels, verdict }
    }
}
