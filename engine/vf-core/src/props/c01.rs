//! C01 — struct conversions move every value to the field the instructions designate.

use crate::e2::{CaseOutcome, E2Case, E2Part, Mode};
use crate::plan_struct::{gen_plan, render};
use crate::runner::Tier;
use crate::tape::Tape;

pub struct Structs;

impl E2Part for Structs {
    fn name(&self) -> &'static str {
        "structs"
    }
    fn prop(&self) -> &'static str {
        "C01"
    }
    fn rule(&self) -> String {
        "L2 struct plans: S named / tuple / unit with 0-6 i64/i32 fields, 1-3 counterparts each in one of 10 documented mapping forms (named->named with or without `as {}`, named->tuple struct through index renames, named->tuple `as ()`, named/tuple->bare tuple, tuple->tuple with or without `as ()`, tuple->named `as {}`, any->unit `as Unit`, unit->unit); per field and counterpart a role: same member, renamed (ident or index, arbitrary permutation), ~ / @ expression per direction, as_type cast, ghost (with/without default, owned/ref split); D-only members through struct-level #[ghosts] (owned/ref split, reading @.field) or ..update; instruction names are an exact cover of a random subset of the 12 kinds (one fallibility per direction group), member instructions in 4 equivalent spellings, default or dedicated. Oracle: hand-rolled reference functions rendered from the plan (never from o2o's logic); every requested conversion is run on pairwise-distinct leaf values and compared by whole-value equality (into_existing starts from sentinels); a compile error in the pasted expansion while the reference compiles is a violation. Non-trivial = (>= 2 fields and a non-default role) or the shapes differ or a hint is present; distinct by derive-input text.".into()
    }
    fn cases(&self, tier: Tier) -> usize {
        match tier {
            Tier::Quick => 4_800,
            Tier::Thorough => 48_000,
        }
    }
    fn mode(&self) -> Mode {
        Mode::Run
    }
    fn gen(&self, tape: &[u16]) -> E2Case {
        let mut t = Tape::new(tape);
        let plan = gen_plan(&mut t);
        render(&mut t, &plan, false)
    }
    fn sig(&self, case: &E2Case, outcome: &CaseOutcome) -> Option<String> {
        struct_sig(case, outcome)
    }
}

/// Known-finding signatures shared by the struct-plan properties (C01, C07, C20).
pub fn struct_sig(case: &E2Case, outcome: &CaseOutcome) -> Option<String> {
    let has = |f: &str| case.facts.iter().any(|x| x == f);
    match outcome {
        CaseOutcome::Rejected(m) if m.contains("should have member trait instruction with field name") || m.contains("should specify corresponding field name") => Some("fallible-member-name-lookup".into()),
        CaseOutcome::Rejected(m) if m.contains("panic") => Some("panic-is-C16".into()),
        CaseOutcome::Mismatch { flavour, .. } if has("positional-target-with-index-permutation") && (flavour.contains("into")) => Some("positional-into-ignores-index-rename".into()),
        CaseOutcome::CompileFail { .. } if has("positional-target-with-index-permutation") => Some("positional-into-ignores-index-rename".into()),
        CaseOutcome::Mismatch { flavour, .. } if has("positional-target-with-interior-ghost") && flavour.contains("existing") => Some("positional-into-existing-index-after-ghost".into()),
        CaseOutcome::CompileFail { .. } if has("positional-target-with-interior-ghost") => Some("positional-into-existing-index-after-ghost".into()),
        _ => None,
    }
}

pub fn e2_parts() -> Vec<Box<dyn E2Part>> {
    vec![Box::new(Structs)]
}
