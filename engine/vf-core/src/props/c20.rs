//! C20 — generated code works in #![no_std]: only core, o2o::traits and user names.

use crate::e2::{CaseOutcome, E2Case, E2Part, Mode};
use crate::gen::{gen_item, GenOpts};
use crate::items::{flat, nospace};
use crate::runner::{CaseReport, Ctx, Part, Tier, Verdict};
use crate::tape::Tape;
use crate::xp::{expand_tokens, parse_input, Outcome};
use serde_json::json;

// ---- E1: vocabulary oracle ---------------------------------------------------------------------

pub struct Vocabulary {
    opts: GenOpts,
}

pub fn parts() -> Vec<Box<dyn Part>> {
    vec![Box::new(Vocabulary { opts: GenOpts { allow_repeat: true, allow_generics: true, enum_into_existing: true, ..GenOpts::default() } })]
}

const FORBIDDEN: [&str; 16] = ["std", "alloc", "Vec", "String", "Box", "ToString", "ToOwned", "format", "vec", "println", "Rc", "Arc", "HashMap", "BTreeMap", "Cow", "eprintln"];

const KEYWORDS: [&str; 30] = ["impl", "for", "fn", "let", "mut", "match", "type", "where", "as", "if", "else", "return", "ref", "in", "pub", "struct", "enum", "move", "dyn", "unsafe", "const", "static", "use", "mod", "trait", "loop", "while", "break", "continue", "true"];

fn is_ident(tok: &str) -> bool {
    if KEYWORDS.contains(&tok) {
        return false;
    }
    let mut ch = tok.chars();
    match ch.next() {
        Some(c) if c.is_alphabetic() || c == '_' => ch.all(|c| c.is_alphanumeric() || c == '_'),
        _ => false,
    }
}

/// Maximal paths `[::] ident (:: ident)*` in a flattened token sequence; returns (text without spaces, idents).
pub fn paths(tokens: &[String]) -> Vec<(String, Vec<String>)> {
    let mut out = vec![];
    let mut i = 0;
    let sep = |i: usize| i + 1 < tokens.len() && tokens[i] == ":+" && tokens[i + 1] == ":";
    while i < tokens.len() {
        let lead = sep(i);
        let start = if lead { i + 2 } else { i };
        if start < tokens.len() && is_ident(&tokens[start]) {
            let mut idents = vec![tokens[start].clone()];
            let mut j = start + 1;
            while sep(j) && j + 2 < tokens.len() && is_ident(&tokens[j + 2]) {
                idents.push(tokens[j + 2].clone());
                j += 3;
            }
            let text = format!("{}{}", if lead { "::" } else { "" }, idents.join("::"));
            out.push((text, idents));
            i = j;
        } else {
            i += 1;
        }
    }
    out
}

pub fn vocabulary_violation(input: &str, ts: &proc_macro2::TokenStream) -> Option<String> {
    let in_ts: proc_macro2::TokenStream = input.parse().ok()?;
    let in_tokens = flat(&in_ts);
    let in_words: std::collections::HashSet<String> = in_tokens.iter().filter(|t| is_ident(t)).cloned().collect();
    let in_text = nospace(input);
    let out_tokens = flat(ts);
    for tok in &out_tokens {
        if FORBIDDEN.contains(&tok.as_str()) && !in_words.contains(tok) {
            return Some(format!("identifier `{}` is introduced by the expansion", tok));
        }
    }
    for (text, idents) in paths(&out_tokens) {
        let multi = idents.len() >= 2 || text.starts_with("::");
        if !multi {
            continue;
        }
        if in_text.contains(&text) {
            continue;
        }
        let allowed = matches!(text.as_str(), "::core::convert::From" | "::core::convert::TryFrom" | "::core::convert::Into" | "::core::convert::TryInto" | "::core::result::Result" | "o2o::traits::IntoExisting" | "o2o::traits::TryIntoExisting" | "Default::default");
        if allowed {
            continue;
        }
        if !text.starts_with("::") && idents.iter().all(|i| in_words.contains(i)) {
            continue;
        }
        return Some(format!("library path `{}` is neither ::core::convert / ::core::result::Result / o2o::traits nor made of the user's names", text));
    }
    None
}

impl Part for Vocabulary {
    fn name(&self) -> &'static str {
        "vocabulary"
    }
    fn prop(&self) -> &'static str {
        "C20"
    }
    fn rule(&self) -> String {
        "Valid-mode L1 inputs with every feature on (all kinds, hints, post-init parents, update, child, ghosts, enum payloads, repeat, generics). Oracle (tokens, robust against harmless refactors): every maximal path in the output that does not occur verbatim in the input must be single-segment, or one of ::core::convert::{From,TryFrom,Into,TryInto}, ::core::result::Result, o2o::traits::{IntoExisting,TryIntoExisting}, Default::default, or consist only of identifiers that occur in the input; and no identifier absent from the input may be std, alloc or a std-prelude-only name (Vec, String, Box, ToString, format, vec, ..). Non-trivial = accepted and contains a fallible or into_existing impl or a post-init body; distinct by input text.".into()
    }
    fn cases(&self, tier: Tier) -> usize {
        match tier {
            Tier::Quick => 72_000,
            Tier::Thorough => 1_200_000,
        }
    }
    fn max_tape(&self) -> usize {
        320
    }
    fn run_case(&self, tape: &[u16], ctx: &Ctx) -> CaseReport {
        let mut t = Tape::new(tape);
        let (item, mut labels) = gen_item(&mut t, &self.opts);
        let text = item.render();
        let di = match parse_input(&text) {
            Ok(d) => d,
            Err(e) => return CaseReport { key: text, nontrivial: false, labels, verdict: Verdict::Discard(format!("non-item: {}", e.chars().take(40).collect::<String>())) },
        };
        match expand_tokens(&di) {
            Ok(ts) => {
                labels.push("accepted".into());
                let s = ts.to_string();
                let nontrivial = s.contains("Try") || s.contains("IntoExisting") || s.contains("let mut obj");
                match vocabulary_violation(&text, &ts) {
                    None => CaseReport { key: text, nontrivial, labels, verdict: Verdict::Pass },
                    Some(why) => CaseReport { key: text.clone(), nontrivial, labels, verdict: ctx.fail_or_known("C20", None, why, json!({"input": text, "output": s})) },
                }
            }
            Err(Outcome::Err(_)) => {
                labels.push("rejected".into());
                CaseReport { key: text, nontrivial: false, labels, verdict: Verdict::Pass }
            }
            Err(_) => CaseReport { key: text, nontrivial: false, labels, verdict: Verdict::Pass },
        }
    }
}

// ---- E2: the same mapping plans as C01 / C02 / C03 / C07, type-checked as a #![no_std] rlib ----------

pub struct NoStd {
    which: &'static str,
}

impl E2Part for NoStd {
    fn name(&self) -> &'static str {
        match self.which {
            "structs" => "no_std-structs",
            "enums" => "no_std-enums",
            "children" => "no_std-children",
            "parents" => "no_std-parents",
            _ => "no_std-flavours",
        }
    }
    fn prop(&self) -> &'static str {
        "C20"
    }
    fn rule(&self) -> String {
        format!("The {} mapping plans of C01 / C02 / C03 / C07 (all 12 kinds, core-only expressions) rendered with a core-only use site: every batch is compiled as a `#![no_std]` rlib (type-check, --emit=metadata) against the no-feature o2o rlib built from /repo/src/lib.rs; every requested conversion is used once. Oracle: rustc accepts the pasted expansion (the hand-written side compiling is a precondition). Non-trivial as in the originating property; distinct by derive-input text.", self.which)
    }
    fn cases(&self, tier: Tier) -> usize {
        match (tier, self.which) {
            (Tier::Quick, "structs") | (Tier::Quick, "enums") => 1_800,
            (Tier::Quick, _) => 900,
            (Tier::Thorough, "structs") | (Tier::Thorough, "enums") => 16_000,
            (Tier::Thorough, _) => 8_000,
        }
    }
    fn mode(&self) -> Mode {
        Mode::NoStdCheck
    }
    fn gen(&self, tape: &[u16]) -> E2Case {
        let mut t = Tape::new(tape);
        match self.which {
            "structs" => {
                let p = crate::plan_struct::gen_plan(&mut t);
                crate::plan_struct::render(&mut t, &p, true)
            }
            "enums" => {
                let p = crate::plan_enum::gen_plan(&mut t);
                crate::plan_enum::render(&mut t, &p, true)
            }
            "children" => {
                let p = crate::plan_flat::gen_plan(&mut t);
                crate::plan_flat::render(&mut t, &p, true)
            }
            "parents" => {
                let p = crate::plan_parent::gen_plan(&mut t);
                crate::plan_parent::render(&mut t, &p, true)
            }
            _ => crate::plan_flavours::gen_case(&mut t, true),
        }
    }
    fn sig(&self, case: &E2Case, outcome: &CaseOutcome) -> Option<String> {
        // the functional defects these plans also trip over belong to C01 / C02 / C03; under C20 they are tolerated by
        // the same signatures (namespaced) so that only no_std-specific failures are reported
        let inner = match self.which {
            "structs" => crate::props::c01::struct_sig(case, outcome),
            "enums" => crate::props::c02::enum_sig(case, outcome),
            "children" | "parents" => crate::props::c03::flat_sig(case, outcome),
            _ => None,
        };
        inner.map(|s| format!("functional:{}", s))
    }
}

pub fn e2_parts() -> Vec<Box<dyn E2Part>> {
    vec![Box::new(NoStd { which: "structs" }), Box::new(NoStd { which: "enums" }), Box::new(NoStd { which: "children" }), Box::new(NoStd { which: "parents" }), Box::new(NoStd { which: "flavours" })]
}
