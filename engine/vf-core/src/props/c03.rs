//! C03 — flattened (child/parent) mappings are faithful; each nested struct is built once.

use crate::e2::{CaseOutcome, E2Case, E2Part, Mode};
use crate::plan_flat::{gen_plan, render};
use crate::runner::Tier;
use crate::tape::Tape;

pub struct Children;

impl E2Part for Children {
    fn name(&self) -> &'static str {
        "children"
    }
    fn prop(&self) -> &'static str {
        "C03"
    }
    fn rule(&self) -> String {
        "L2 flattening plans: a random nesting tree for the counterpart D (depth 1-4, branching <= 3, named or tuple struct at each level with `as ()` / `as {}` hints in #[child_parents]), up to 10 i64 leaves assigned to the flat struct S whose declaration order is a random permutation (children of one subtree interleave with other subtrees and with root members), renames and ~ expressions on children, D-only leaves through struct-level #[ghosts] addressed by child path (a.b@g: {..}); S named or tuple; all 12 kinds, one fallibility per direction group. Oracle: reference functions that build the nested value literally / read and write counterpart.a.b.<field>; rustc must accept the pasted expansion (a struct built twice is E0062, a missing member E0063) and From / Into / IntoExisting results must equal the reference (into_existing on a sentinel-filled nested value: untouched leaves survive). Non-trivial = (depth >= 2 or >= 2 sibling subtrees) and the flat order is not tree order; distinct by derive-input text.".into()
    }
    fn cases(&self, tier: Tier) -> usize {
        match tier {
            Tier::Quick => 4_000,
            Tier::Thorough => 40_000,
        }
    }
    fn mode(&self) -> Mode {
        Mode::Run
    }
    fn gen(&self, tape: &[u16]) -> E2Case {
        let mut t = Tape::new(tape);
        let plan = gen_plan(&mut t);
        render(&mut t, &plan, false)
    }
    fn sig(&self, case: &E2Case, outcome: &CaseOutcome) -> Option<String> {
        flat_sig(case, outcome)
    }
}

pub fn flat_sig(_case: &E2Case, outcome: &CaseOutcome) -> Option<String> {
    // all structural signatures this part once had belong to defects that are repaired (known_findings.txt, fixed: lines)
    match outcome {
        CaseOutcome::Rejected(m) if m.contains("panic") => Some("panic-is-C16".into()),
        _ => None,
    }
}

pub struct Parents;

impl E2Part for Parents {
    fn name(&self) -> &'static str {
        "parents"
    }
    fn prop(&self) -> &'static str {
        "C03"
    }
    fn rule(&self) -> String {
        "Inverse flattening: named S with plain members and 1-2 nested members flattened into a flat named D — parameterised #[parent(x, [map(yy)] y, [parent(z, ..)] inner: Inner)] (recursive to depth 3, nested types given when a From kind is requested, renames and ~ expressions on children) and bare #[parent] members whose type derives from_ref(D) / into_existing(D) itself (D: Default); all 12 kinds (infallible only with a bare parent). Oracle: reference functions building S from D literally and pouring S into D member by member; whole-value equality for From, Into and IntoExisting (sentinel-filled destination). Non-trivial = a nested [parent] or a bare #[parent] or >= 3 members; distinct by derive-input text.".into()
    }
    fn cases(&self, tier: Tier) -> usize {
        match tier {
            Tier::Quick => 2_400,
            Tier::Thorough => 24_000,
        }
    }
    fn mode(&self) -> Mode {
        Mode::Run
    }
    fn gen(&self, tape: &[u16]) -> E2Case {
        let mut t = Tape::new(tape);
        let plan = crate::plan_parent::gen_plan(&mut t);
        crate::plan_parent::render(&mut t, &plan, false)
    }
    fn sig(&self, case: &E2Case, outcome: &CaseOutcome) -> Option<String> {
        flat_sig(case, outcome)
    }
}

pub fn e2_parts() -> Vec<Box<dyn E2Part>> {
    vec![Box::new(Children), Box::new(Parents)]
}
