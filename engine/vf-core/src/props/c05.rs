//! C05 — the most specific applicable member instruction wins; others never interfere.

use crate::dsl::*;
use crate::gen::cover_cells;
use crate::items::{split_items, ImplItem};
use crate::runner::{CaseReport, Ctx, Part, Tier, Verdict};
use crate::tape::Tape;
use crate::xp::{expand_tokens, parse_input, Outcome};
use serde_json::json;

pub struct Select;

pub fn parts() -> Vec<Box<dyn Part>> {
    vec![Box::new(Select)]
}

/// One instruction on the subject member, with its unique marker.
#[derive(Clone, Debug)]
pub struct Marked {
    pub instr: Instr,
    /// integer literal that only this instruction carries
    pub marker: String,
    pub ghost: bool,
    /// for mapping instructions: (kinds, fallible); for ghosts: kinds by ownership
    pub kinds: Vec<usize>,
    pub fallible: bool,
    pub ded: Option<String>,
}

const CPS: [&str; 3] = ["D", "A", "B"];

fn ghost_kinds(name: &str) -> Vec<usize> {
    match name {
        "ghost_owned" => vec![OI, FO, OIE],
        "ghost_ref" => vec![RI, FR, RIE],
        _ => vec![OI, RI, FO, FR, OIE, RIE],
    }
}

/// The reference model: the chain exactly as property C05 states it.
pub fn select<'a>(instrs: &'a [Marked], kind: usize, fallible: bool, ty: &str) -> Option<&'a Marked> {
    let pick = |pred: &dyn Fn(&Marked) -> bool| -> Option<&'a Marked> {
        // dedicated to the counterpart beats default
        instrs.iter().find(|m| pred(m) && m.ded.as_deref() == Some(ty)).or_else(|| instrs.iter().find(|m| pred(m) && m.ded.is_none()))
    };
    // a #[ghost] applicable to the conversion beats them all
    if let Some(g) = pick(&|m| m.ghost && m.kinds.contains(&kind)) {
        return Some(g);
    }
    let level = |k: usize, f: bool| pick(&|m| !m.ghost && m.fallible == f && m.kinds.contains(&k));
    // exactly that kind
    if let Some(m) = level(kind, fallible) {
        return Some(m);
    }
    // for a fallible conversion: the infallible instruction of that kind
    if fallible {
        if let Some(m) = level(kind, false) {
            return Some(m);
        }
    }
    // for into_existing: the corresponding `into` instruction (same ownership)
    let into_kind = match kind {
        OIE => Some(OI),
        RIE => Some(RI),
        _ => None,
    };
    if let Some(ik) = into_kind {
        if let Some(m) = level(ik, fallible) {
            return Some(m);
        }
        if fallible {
            if let Some(m) = level(ik, false) {
                return Some(m);
            }
        }
    }
    None
}

pub struct Gen {
    pub item: Item,
    pub cps: Vec<String>,
    pub marked: Vec<Marked>,
    pub labels: Vec<String>,
}

fn gen_marked(t: &mut Tape, cps: &[String], counter: &mut usize, labels: &mut Vec<String>) -> Vec<Marked> {
    let mut out: Vec<Marked> = vec![];
    // dedication classes: default + each counterpart
    let mut deds: Vec<Option<String>> = vec![None];
    for c in cps {
        deds.push(Some(c.clone()));
    }
    for ded in deds {
        let p_use = if ded.is_none() { (3, 4) } else { (1, 2) };
        // mapping instructions: per fallibility an exact cover of a random subset of kinds (no ties inside a cell)
        for f in 0..2 {
            if !t.chance(p_use.0, p_use.1) {
                continue;
            }
            let kmax = if f == 1 { 4 } else { 6 };
            let mut cells = [false; 6];
            for k in 0..kmax {
                cells[k] = t.chance(2, 5);
            }
            if !cells.iter().any(|x| *x) {
                continue;
            }
            for name in cover_cells(t, cells, f == 1) {
                *counter += 1;
                let marker = format!("{}", 9000 + *counter);
                let member = if t.coin() { Some(format!("mk_{}", *counter)) } else { None };
                let (kinds, _) = trait_name_cells(&name).unwrap();
                out.push(Marked { instr: Instr::Member(MemberInstr { name: name.clone(), ded: ded.clone(), member, action: Some(format!("~ + {}", marker)) }), marker, ghost: false, kinds, fallible: f == 1, ded: ded.clone() });
                labels.push(format!("member-instr:{}", name));
            }
        }
        // ghosts: none / ghost / ghost_owned / ghost_ref / ghost_owned + ghost_ref
        let gmode = t.weighted(&[8, 1, 1, 1, 1]);
        let names: Vec<&str> = match gmode {
            1 => vec!["ghost"],
            2 => vec!["ghost_owned"],
            3 => vec!["ghost_ref"],
            4 => vec!["ghost_owned", "ghost_ref"],
            _ => vec![],
        };
        for n in names {
            *counter += 1;
            let marker = format!("{}", 8000 + *counter);
            out.push(Marked { instr: Instr::Ghost { name: n.into(), ded: ded.clone(), action: Some(format!("{{ {} }}", marker)) }, marker, ghost: true, kinds: ghost_kinds(n), fallible: false, ded: ded.clone() });
            labels.push(format!("ghost:{}{}", n, if ded.is_some() { ":dedicated" } else { "" }));
        }
    }
    t.shuffle(&mut out);
    out
}

pub fn build_item(cps: &[String], marked: &[Marked], t: &mut Tape) -> Item {
    let mut attrs = vec![];
    for c in cps {
        for (name, err) in [("map", None), ("into_existing", None), ("try_map", Some("E")), ("try_into_existing", Some("E"))] {
            // fallible flavours live on the same type at token level (E1 never compiles the output)
            attrs.push(Attr::bare(Instr::Trait(TraitInstr { name: name.into(), ty: c.clone(), hint: None, err: err.map(|e: &str| e.to_string()), params: vec![] })));
        }
    }
    let m_attrs: Vec<Attr> = marked.iter().map(|m| if has_bare_form(&m.instr.name()) && t.chance(3, 4) { Attr::bare(m.instr.clone()) } else { Attr::wrapped(vec![m.instr.clone()]) }).collect();
    Item {
        attrs,
        name: "S".into(),
        generics: String::new(),
        where_clause: String::new(),
        body: Body::Struct(
            Shape::Named,
            vec![FieldDef { attrs: vec![], name: Some("a".into()), ty: "i32".into() }, FieldDef { attrs: m_attrs, name: Some("m".into()), ty: "i32".into() }, FieldDef { attrs: vec![], name: Some("b".into()), ty: "i32".into() }],
        ),
    }
}

pub fn gen(t: &mut Tape) -> Gen {
    let mut labels = vec![];
    let ncp = 1 + t.below(3);
    let cps: Vec<String> = CPS[..ncp].iter().map(|s| s.to_string()).collect();
    let mut counter = 0;
    let marked = gen_marked(t, &cps, &mut counter, &mut labels);
    let item = build_item(&cps, &marked, t);
    labels.push(format!("counterparts:{}", ncp));
    labels.push(format!("instructions-on-member:{}", marked.len().min(9)));
    Gen { item, cps, marked, labels }
}

fn find_impl<'a>(items: &'a [ImplItem], kind: usize, fallible: bool, ty: &str) -> Option<&'a ImplItem> {
    let (tn, by_ref) = match (kind, fallible) {
        (FO, false) => ("From", false),
        (FR, false) => ("From", true),
        (FO, true) => ("TryFrom", false),
        (FR, true) => ("TryFrom", true),
        (OI, false) => ("Into", false),
        (RI, false) => ("Into", true),
        (OI, true) => ("TryInto", false),
        (RI, true) => ("TryInto", true),
        (OIE, false) => ("IntoExisting", false),
        (RIE, false) => ("IntoExisting", true),
        (OIE, true) => ("TryIntoExisting", false),
        (RIE, true) => ("TryIntoExisting", true),
        _ => unreachable!(),
    };
    items.iter().find(|it| it.key().map_or(false, |k| k.trait_name == tn && k.by_ref == by_ref && k.counterpart == ty))
}

/// tokens of an impl body as words (so that marker `9017` does not match inside `19017`)
fn has_word(text: &str, w: &str) -> bool {
    text.split(|c: char| !(c.is_ascii_alphanumeric() || c == '_')).any(|x| x == w)
}

pub fn check_selection(g: &Gen, items: &[ImplItem]) -> Result<usize, (String, String)> {
    let mut fallback_levels = 0;
    for ty in &g.cps {
        for f in [false, true] {
            for kind in 0..6 {
                let it = match find_impl(items, kind, f, ty) {
                    Some(i) => i,
                    None => return Err((format!("no impl for ({}, fallible={}, {})", KIND_NAMES[kind], f, ty), String::new())),
                };
                let body = it.body.to_string();
                let winner = select(&g.marked, kind, f, ty);
                // which markers must be present: the winner's — except a ghost winner on a non-From kind (field skipped)
                let is_from = kind == FO || kind == FR;
                let expect: Option<&str> = match winner {
                    Some(w) if w.ghost && !is_from => None,
                    Some(w) => Some(w.marker.as_str()),
                    None => None,
                };
                if let Some(w) = winner {
                    if !w.ghost && !(w.fallible == f && w.kinds.contains(&kind) && true) {
                        fallback_levels += 1;
                    }
                }
                for m in &g.marked {
                    let present = has_word(&body, &m.marker);
                    let should = expect == Some(m.marker.as_str());
                    if present != should {
                        return Err((
                            format!(
                                "impl ({}, fallible={}, {}): marker {} of `{}` is {} but the most specific applicable instruction is {}",
                                KIND_NAMES[kind],
                                f,
                                ty,
                                m.marker,
                                m.instr.render(),
                                if present { "present" } else { "absent" },
                                winner.map_or("none (plain field)".to_string(), |w| format!("`{}`", w.instr.render()))
                            ),
                            it.text.clone(),
                        ));
                    }
                }
                // a renamed winner must address the renamed member
                if let Some(w) = winner {
                    if let Instr::Member(mi) = &w.instr {
                        if let Some(r) = &mi.member {
                            if !has_word(&body, r) {
                                return Err((format!("impl ({}, fallible={}, {}): winner `{}` renames to {} but the body does not mention it", KIND_NAMES[kind], f, ty, w.instr.render(), r), it.text.clone()));
                            }
                        }
                    }
                }
            }
        }
    }
    Ok(fallback_levels)
}

impl Part for Select {
    fn name(&self) -> &'static str {
        "select"
    }
    fn prop(&self) -> &'static str {
        "C05"
    }
    fn rule(&self) -> String {
        "Named struct S { a, m, b }, 1-3 named counterparts, all 12 conversion kinds requested for each; on member m a random set of member instructions built cell by cell (21 mapping names x {default, dedicated to each counterpart}, exact covers so that no two instructions tie in a (kind, fallibility, dedication) cell, plus ghost / ghost_owned / ghost_ref x dedication), each carrying a unique integer marker in its expression (and half of them a unique rename), in random order and spelling. Oracle 1: an independent select(kind, fallible, T) implementing the chain as the property states it; in every one of the 12 x n impls exactly the winner's marker is present (none when a ghost skips the field). Oracle 2 (non-interference): one more instruction is added in a free cell; every impl whose winner is unchanged must be token-identical before and after. Non-trivial = >= 3 instructions on m and >= 1 impl decided by a fallback level; distinct by input text. Oracle 4 (1 case in 6): a default #[child(zz)] that every Into-capable counterpart shadows with its own dedicated #[child(T| a)] changes nothing for those counterparts (with every counterpart shadowing it: the whole outcome; with one From-only counterpart left to use it: the input stays accepted and the shadowing counterparts' impls are unchanged). Oracle 5 (1 in 6): the same for a default parameterised #[parent(..)] with an untyped nested level next to dedicated typed ones for every From counterpart.".into()
    }
    fn cases(&self, tier: Tier) -> usize {
        match tier {
            Tier::Quick => 48_000,
            Tier::Thorough => 800_000,
        }
    }
    fn max_tape(&self) -> usize {
        256
    }
    fn run_case(&self, tape: &[u16], ctx: &Ctx) -> CaseReport {
        let mut t = Tape::new(tape);
        let g = gen(&mut t);
        let text = g.item.render();
        let mut labels = g.labels.clone();
        let di = match parse_input(&text) {
            Ok(d) => d,
            Err(e) => return CaseReport { key: text, nontrivial: false, labels, verdict: Verdict::Discard(format!("non-item: {}", e.chars().take(50).collect::<String>())) },
        };
        let ts = match expand_tokens(&di) {
            Ok(ts) => ts,
            Err(Outcome::Panic(m)) => return CaseReport { key: text.clone(), nontrivial: false, labels, verdict: ctx.fail_or_known("C05", Some("panic-is-C16"), format!("panic: {}", m), json!({"input": text})) },
            Err(o) => return CaseReport { key: text.clone(), nontrivial: false, labels, verdict: ctx.fail_or_known("C05", None, format!("valid member-instruction set is rejected: {}", o.short()), json!({"input": text, "outcome": o.short()})) },
        };
        let items = match split_items(&ts) {
            Ok(i) => i,
            Err(e) => return CaseReport { key: text.clone(), nontrivial: false, labels, verdict: ctx.fail_or_known("C05", None, format!("output is not a sequence of impls: {}", e), json!({"input": text})) },
        };
        let fallbacks = match check_selection(&g, &items) {
            Ok(n) => n,
            Err((msg, item)) => return CaseReport { key: text.clone(), nontrivial: true, labels, verdict: ctx.fail_or_known("C05", None, msg, json!({"input": text, "item": item})) },
        };
        if fallbacks > 0 {
            labels.push("fallback-level-decides".into());
        }
        let nontrivial = g.marked.len() >= 3 && fallbacks > 0;

        // Oracle 2: add one instruction in a free cell
        let mut counter = 500;
        let ded: Option<String> = if t.coin() { None } else { Some(t.pick(&g.cps).clone()) };
        let ghost = t.chance(1, 5);
        let added: Option<Marked> = if ghost {
            let n = *t.pick(&["ghost", "ghost_owned", "ghost_ref"]);
            let ks = ghost_kinds(n);
            let clash = g.marked.iter().any(|m| m.ghost && m.ded == ded && m.kinds.iter().any(|k| ks.contains(k)));
            if clash {
                None
            } else {
                counter += 1;
                let marker = format!("{}", 7000 + counter);
                Some(Marked { instr: Instr::Ghost { name: n.into(), ded: ded.clone(), action: Some(format!("{{ {} }}", marker)) }, marker, ghost: true, kinds: ks, fallible: false, ded: ded.clone() })
            }
        } else {
            let name = t.pick(&MEMBER_MAP_NAMES).to_string();
            let (ks, f) = trait_name_cells(&name).unwrap();
            let clash = g.marked.iter().any(|m| !m.ghost && m.ded == ded && m.fallible == f && m.kinds.iter().any(|k| ks.contains(k)));
            if clash {
                None
            } else {
                counter += 1;
                let marker = format!("{}", 7000 + counter);
                Some(Marked { instr: Instr::Member(MemberInstr { name, ded: ded.clone(), member: Some(format!("mk_{}", counter)), action: Some(format!("~ + {}", marker)) }), marker, ghost: false, kinds: ks, fallible: f, ded: ded.clone() })
            }
        };
        if let Some(add) = added {
            let mut marked2 = g.marked.clone();
            let pos = t.below(marked2.len() + 1);
            marked2.insert(pos, add.clone());
            let item2 = build_item(&g.cps, &marked2, &mut Tape::new(&[]));
            let item1 = build_item(&g.cps, &g.marked, &mut Tape::new(&[]));
            let (t1, t2) = (item1.render(), item2.render());
            if let (Ok(d1), Ok(d2)) = (parse_input(&t1), parse_input(&t2)) {
                if let (Ok(o1), Ok(o2)) = (expand_tokens(&d1), expand_tokens(&d2)) {
                    if let (Ok(i1), Ok(i2)) = (split_items(&o1), split_items(&o2)) {
                        labels.push("non-interference-checked".into());
                        for ty in &g.cps {
                            for f in [false, true] {
                                for kind in 0..6 {
                                    let w1 = select(&g.marked, kind, f, ty).map(|m| m.marker.clone());
                                    let w2 = select(&marked2, kind, f, ty).map(|m| m.marker.clone());
                                    if w1 == w2 {
                                        let a = find_impl(&i1, kind, f, ty).map(|x| x.text.clone());
                                        let b = find_impl(&i2, kind, f, ty).map(|x| x.text.clone());
                                        if a != b {
                                            return CaseReport {
                                                key: text.clone(),
                                                nontrivial,
                                                labels,
                                                verdict: ctx.fail_or_known(
                                                    "C05",
                                                    None,
                                                    format!("adding `{}` (not applicable / shadowed for ({}, fallible={}, {})) changed that impl", add.instr.render(), KIND_NAMES[kind], f, ty),
                                                    json!({"before_input": t1, "after_input": t2, "before_impl": a, "after_impl": b}),
                                                ),
                                            };
                                        }
                                    }
                                }
                            }
                        }
                    }
                }
            }
        }
        // Oracle 3: a default #[ghost] without a value that every counterpart shadows with its own dedicated #[ghost(T| {..})]
        // applies to no conversion at all: the input stays accepted and no impl changes
        if t.chance(1, 6) {
            let mut base: Vec<Marked> = g.marked.iter().filter(|m| !m.ghost).cloned().collect();
            for (ci, c) in g.cps.iter().enumerate() {
                let marker = format!("{}", 6000 + ci);
                base.push(Marked { instr: Instr::Ghost { name: "ghost".into(), ded: Some(c.clone()), action: Some(format!("{{ {} }}", marker)) }, marker, ghost: true, kinds: ghost_kinds("ghost"), fallible: false, ded: Some(c.clone()) });
            }
            let mut with_shadowed = base.clone();
            let pos = t.below(with_shadowed.len() + 1);
            with_shadowed.insert(pos, Marked { instr: Instr::Ghost { name: "ghost".into(), ded: None, action: None }, marker: "none".into(), ghost: true, kinds: ghost_kinds("ghost"), fallible: false, ded: None });
            let (t1, t2) = (build_item(&g.cps, &base, &mut Tape::new(&[])).render(), build_item(&g.cps, &with_shadowed, &mut Tape::new(&[])).render());
            if let (Ok(d1), Ok(d2)) = (parse_input(&t1), parse_input(&t2)) {
                if let Ok(o1) = expand_tokens(&d1) {
                    labels.push("shadowed-default-ghost-checked".into());
                    let same = match expand_tokens(&d2) {
                        Ok(o2) => o1.to_string() == o2.to_string(),
                        Err(_) => false,
                    };
                    if !same {
                        return CaseReport {
                            key: text.clone(),
                            nontrivial,
                            labels,
                            verdict: ctx.fail_or_known("C05", None, "a default #[ghost] that every counterpart shadows with a dedicated one changes the outcome".into(), json!({"before_input": t1, "after_input": t2, "after": expand_tokens(&d2).map(|x| x.to_string()).unwrap_or_else(|e| e.short())})),
                        };
                    }
                }
            }
        }
        // Oracle 4: the same for #[child]: a default #[child(zz)] that every Into-capable counterpart shadows with its own dedicated
        // #[child(T| a)] is selected by none of them. With every counterpart shadowing it the outcome must not change at all; with
        // one From-only counterpart left to use it, the input stays accepted and the impls of the shadowing counterparts stay
        // what they were.
        if t.chance(1, 6) {
            let from_only = g.cps.len() >= 2 && t.coin();
            let shadowing: Vec<&String> = if from_only { g.cps[..g.cps.len() - 1].iter().collect() } else { g.cps.iter().collect() };
            let mut head = String::new();
            let mut member = String::new();
            for c in &shadowing {
                head.push_str(&format!("#[{}({})] #[child_parents({}| a: NA)] ", t.pick(&["into", "map", "owned_into", "ref_into", "into_existing"]), c, c));
                member.push_str(&format!("#[child({}| a)] ", c));
            }
            if from_only {
                head.push_str(&format!("#[from({})] ", g.cps[g.cps.len() - 1]));
            }
            let at_front = t.coin();
            let with = if at_front { format!("#[child(zz)] {}", member) } else { format!("{}#[child(zz)] ", member) };
            let t1 = format!("{}struct S {{ {}x: i32, y: i32 }}", head, member);
            let t2 = format!("{}struct S {{ {}x: i32, y: i32 }}", head, with);
            if let (crate::props::util::Exp::Ok { items: i1, .. }, o2) = (crate::props::util::expand_items(&t1), crate::props::util::expand_items(&t2)) {
                labels.push("shadowed-default-child-checked".into());
                let keyed = |items: &[ImplItem]| -> Vec<String> {
                    let mut v: Vec<String> = items.iter().filter(|i| i.key().map_or(false, |k| shadowing.iter().any(|c| k.counterpart.replace(' ', "") == c.replace(' ', "")))).map(|i| i.text.clone()).collect();
                    v.sort();
                    v
                };
                let same = match &o2 {
                    crate::props::util::Exp::Ok { items: i2, .. } => keyed(&i1) == keyed(i2),
                    _ => false,
                };
                if !same {
                    let after = match &o2 {
                        crate::props::util::Exp::Ok { text, .. } => text.clone(),
                        crate::props::util::Exp::Other(o) => o.short(),
                        _ => "unsplittable output".to_string(),
                    };
                    return CaseReport {
                        key: text.clone(),
                        nontrivial,
                        labels,
                        verdict: ctx.fail_or_known("C05", None, "a default #[child] that a counterpart shadows with a dedicated one changes that counterpart's outcome".into(), json!({"before_input": t1, "after_input": t2, "after": after})),
                    };
                }
            }
        }
        // Oracle 5: the same for a parameterised #[parent(..)]: a default one whose nested level is untyped (fine for Into, an error
        // for From) next to dedicated, typed ones for every From counterpart is selected by no From conversion.
        if t.chance(1, 6) {
            let into_only = g.cps.len() >= 2 && t.coin();
            let shadowing: Vec<&String> = if into_only { g.cps[..g.cps.len() - 1].iter().collect() } else { g.cps.iter().collect() };
            let mut head = String::new();
            let mut member = String::new();
            for c in &shadowing {
                head.push_str(&format!("#[{}({})] ", t.pick(&["from", "map", "from_owned", "from_ref"]), c));
                member.push_str(&format!("#[parent({}| [parent(x)] inner: Inner)] ", c));
            }
            if into_only {
                head.push_str(&format!("#[into({})] ", g.cps[g.cps.len() - 1]));
            }
            let with = if t.coin() { format!("#[parent([parent(x)] inner)] {}", member) } else { format!("{}#[parent([parent(x)] inner)] ", member) };
            let t1 = format!("{}struct S {{ {}p: P, y: i32 }}", head, member);
            let t2 = format!("{}struct S {{ {}p: P, y: i32 }}", head, with);
            if let (crate::props::util::Exp::Ok { items: i1, .. }, o2) = (crate::props::util::expand_items(&t1), crate::props::util::expand_items(&t2)) {
                labels.push("shadowed-default-parent-checked".into());
                let keyed = |items: &[ImplItem]| -> Vec<String> {
                    let mut v: Vec<String> = items.iter().filter(|i| i.key().map_or(false, |k| shadowing.iter().any(|c| k.counterpart.replace(' ', "") == c.replace(' ', "")))).map(|i| i.text.clone()).collect();
                    v.sort();
                    v
                };
                let same = match &o2 {
                    crate::props::util::Exp::Ok { items: i2, .. } => keyed(&i1) == keyed(i2),
                    _ => false,
                };
                if !same {
                    let after = match &o2 {
                        crate::props::util::Exp::Ok { text, .. } => text.clone(),
                        crate::props::util::Exp::Other(o) => o.short(),
                        _ => "unsplittable output".to_string(),
                    };
                    return CaseReport {
                        key: text.clone(),
                        nontrivial,
                        labels,
                        verdict: ctx.fail_or_known("C05", None, "a default #[parent(..)] that a counterpart shadows with a dedicated one changes that counterpart's outcome".into(), json!({"before_input": t1, "after_input": t2, "after": after})),
                    };
                }
            }
        }
        CaseReport { key: text, nontrivial, labels, verdict: Verdict::Pass }
    }
}
