//! C18 — the syn 1 and syn 2 back-ends behave identically.

use crate::evidence::CheckResult;
use crate::known::Known;
use crate::runner::Tier;
use crate::tape::Tape;
use crate::wild::wild_opts;
use crate::xproc;

pub fn gen_input(t: &mut Tape) -> (String, Vec<String>) {
    let opts = wild_opts();
    crate::props::c19::gen_input(t, &opts)
}

/// Known-finding signatures: narrow predicates over the input text and the two output lines.
fn sig_of(input: &str, syn1: &str, syn2: &str) -> Option<String> {
    // an o2o attribute written with [] or {} delimiters: #[map[D]] / #[map{D}]
    let mut odd_delims = false;
    for part in input.split("#[").skip(1) {
        let name: String = part.chars().take_while(|c| c.is_alphanumeric() || *c == '_').collect();
        let rest = &part[name.len()..];
        if !name.is_empty() && (rest.starts_with('[') || rest.starts_with('{')) {
            odd_delims = true;
        }
    }
    if odd_delims && syn1.starts_with("ERR") && !syn1.starts_with(&format!("ERR {}", crate::xp::ROOT_ERR)) {
        return Some("bracket-or-brace-attr-delimiters".into());
    }
    // syn 1.0's identifier parser does not treat the edition-2018 keywords async / await / dyn / try as keywords, syn 2's does
    for kw in ["async", "await", "dyn", "try"] {
        if input.contains(kw) && syn2 == format!("ERR expected identifier, found keyword `{}`", kw) && syn1 != syn2 {
            return Some("edition-2018-keyword-is-an-identifier-for-syn1-only".into());
        }
        // the same word at the start of an instruction argument (`#[into_existing(dyn)]`, `#[try_from(dyn | ..)]`): syn1 reads a
        // member name / a type to dedicate to, syn2 an expression, so the verdicts or the expansions differ
        if syn1 != syn2 && keyword_in_identifier_position(input, kw) {
            return Some("edition-2018-keyword-is-an-identifier-for-syn1-only".into());
        }
    }
    if input.contains(" = ") && (syn1.starts_with("ERR") != syn2.starts_with("ERR") || syn1 != syn2) && has_name_value_attr(input) {
        return Some("name-value-attr".into());
    }
    None
}

/// `kw` is the first token of an instruction argument: directly after `(`, `|` or `,`, and not the prefix of a longer word
fn keyword_in_identifier_position(input: &str, kw: &str) -> bool {
    input.match_indices(kw).any(|(p, _)| {
        let before = input[..p].trim_end().chars().last();
        let after = input[p + kw.len()..].chars().next();
        matches!(before, Some('(') | Some('|') | Some(',')) && !after.map_or(false, |c| c.is_alphanumeric() || c == '_')
    })
}

fn has_name_value_attr(input: &str) -> bool {
    for part in input.split("#[").skip(1) {
        let name: String = part.chars().take_while(|c| c.is_alphanumeric() || *c == '_').collect();
        let rest = part[name.len()..].trim_start();
        if !name.is_empty() && name != "doc" && rest.starts_with('=') {
            return true;
        }
    }
    false
}

pub fn run(res: &mut CheckResult, tier: Tier, seed: u64, known: &Known) {
    let n = match tier {
        Tier::Quick => 24_000,
        Tier::Thorough => 240_000,
    };
    let rule = "Union of the valid-mode, fault-injected (2-4 documented misuses), wild-mode and token-soup L1 corpora and the instruction-selection lattice of C16, incl. attribute forms with all three delimiters, name = value, paths and empty #[o2o]; each input is expanded by `dump-syn1` (o2o-impl feature syn) and `dump-syn2` (feature syn2) in separate processes. Oracle: both accept with byte-identical token strings; or both reject — when both lead with the o2o root error the remaining diagnostics are compared as sets, otherwise (parser-library stage) only the verdict; mixed verdicts or a panic on one side only are violations; inputs the parser library itself rejects as a derive input are outside the property. Non-trivial = the input carries >= 2 attributes; distinct by input text.".to_string();
    match xproc::run_backend_diff("C18", "backend-diff", rule, n, seed, known, &|tape: &[u16]| {
        let mut t = Tape::new(tape);
        gen_input(&mut t)
    }, &sig_of)
    {
        Ok(s) => res.parts.push(s),
        Err(e) => res.inconclusive = Some(e),
    }
}

pub fn replay(tape: &[u16], stored: Option<&str>, _known: &Known) -> Result<Option<String>, String> {
    let mut t = Tape::new(tape);
    let text = match stored {
        Some(s) => s.to_string(),
        None => gen_input(&mut t).0,
    };
    let a = xproc::run_dump("dump-syn1", std::slice::from_ref(&text))?;
    let b = xproc::run_dump("dump-syn2", std::slice::from_ref(&text))?;
    if a[0] == b[0] {
        return Ok(None);
    }
    let (ka, kb) = (a[0].split(' ').next().unwrap_or(""), b[0].split(' ').next().unwrap_or(""));
    if ka == "NOITEM" || kb == "NOITEM" {
        return Ok(None);
    }
    if ka == kb && ka == "ERR" {
        let root = format!("ERR {}", crate::xp::ROOT_ERR);
        if !a[0].starts_with(&root) && !b[0].starts_with(&root) {
            return Ok(None);
        }
        let set = |l: &str| {
            let mut v: Vec<String> = l[4..].split('\x1f').map(|s| s.to_string()).collect();
            v.sort();
            v
        };
        if a[0].starts_with(&root) && b[0].starts_with(&root) && set(&a[0]) == set(&b[0]) {
            return Ok(None);
        }
    }
    Ok(Some(format!("syn1: {} | syn2: {}", xproc::trunc(&a[0], 300), xproc::trunc(&b[0], 300))))
}
