//! C15 — documented misuse is reported as a compile error, completely, in any context.
//!
//! Base = valid-mode L1 input; 0, 1 or 2 faults from the documented classes are injected at random
//! admissible positions; the expected diagnostics come from a table transcribed from validate.rs /
//! attr.rs / o2o-impl/src/tests.rs (DESIGN.md appendix B).

use crate::dsl::*;
use crate::gen::{gen_item, Cp, GenOpts};
use crate::runner::{CaseReport, Ctx, Part, Tier, Verdict};
use crate::tape::Tape;
use crate::xp::{expand, Outcome};
use quote::ToTokens;
use serde_json::json;

pub const POSTFIX: &str = " To turn this message off, use #[o2o(allow_unknown)]";

/// What a fault is expected to produce: every listed substring must occur in some diagnostic.
#[derive(Clone, Debug)]
pub struct Expected {
    pub class: String,
    pub messages: Vec<String>,
    /// detected while parsing attributes (a `?` return before validation)
    pub parse_stage: bool,
}

pub fn base_opts() -> GenOpts {
    GenOpts { allow_repeat: false, allow_generics: false, enum_into_existing: false, ..GenOpts::default() }
}

/// The way o2o prints a counterpart type in messages: the path's token string.
pub fn path_str(ty: &str) -> String {
    match syn::parse_str::<syn::Path>(ty) {
        Ok(p) => p.to_token_stream().to_string(),
        Err(_) => ty.parse::<proc_macro2::TokenStream>().map(|t| t.to_string()).unwrap_or_else(|_| ty.to_string()),
    }
}

/// Recover counterpart info from the trait instructions of an item.
pub fn analyze(item: &Item) -> Vec<Cp> {
    // trait-level repeat copies ..update / return onto later instructions: look at the written-out form
    let (item, _) = crate::gen_repeat::write_out(item);
    let item = &item;
    let mut cps: Vec<Cp> = vec![];
    for tr in item.trait_instrs() {
        let f = tr.fallible() as usize;
        let idx = match cps.iter().position(|c| c.ty == tr.ty) {
            Some(i) => i,
            None => {
                cps.push(Cp { ty: tr.ty.clone(), dedicable: !tr.ty.starts_with('('), hint: tr.hint, cells: [[false; 6]; 2], upd: [[false; 6]; 2], ret: [[false; 6]; 2] });
                cps.len() - 1
            }
        };
        for k in tr.kinds() {
            cps[idx].cells[f][k] = true;
            if tr.params.iter().any(|p| matches!(p, TParam::Update(_))) {
                cps[idx].upd[f][k] = true;
            }
            if tr.params.iter().any(|p| matches!(p, TParam::Return(_))) {
                cps[idx].ret[f][k] = true;
            }
        }
    }
    cps
}

fn spell_one(t: &mut Tape, i: Instr) -> (Attr, bool) {
    // returns (attr, own) — own = written inside #[o2o(..)]
    if has_bare_form(&i.name()) && t.coin() {
        (Attr::bare(i), false)
    } else {
        (Attr::wrapped(vec![i]), true)
    }
}

fn insert_at(t: &mut Tape, list: &mut Vec<Attr>, a: Attr) {
    let pos = t.below(list.len() + 1);
    list.insert(pos, a);
}

fn fields_mut(item: &mut Item) -> Option<&mut Vec<FieldDef>> {
    match &mut item.body {
        Body::Struct(_, f) => Some(f),
        _ => None,
    }
}

fn is_plain_struct_field(f: &FieldDef) -> bool {
    f.attrs.is_empty()
}

pub const N_CLASSES: usize = 22;

/// Name of a counterpart no trait instruction mentions; the variants differ only in letter case so that two
/// simultaneous faults yield diagnostics that differ only in case.
fn unknown_ty(t: &mut Tape) -> String {
    t.pick(&["Zed", "Zed", "ZED", "zed", "ZeD"]).to_string()
}

/// Fault classes whose expected diagnostics are context-dependent; pairs that would change each other's
/// context are not generated (the property quantifies over pairs of *simultaneous misuses*, not over one
/// misuse that repairs or masks another).
fn compatible(a: &str, b: &str) -> bool {
    let cp_group = |c: &str| c.contains("child_parents") || c.contains("child-parents") || c == "child-without-child-parents";
    let member_level = |c: &str| {
        matches!(
            c,
            "unknown-dedicated-field" | "unknown-dedicated-variant" | "unknown-dedicated-variant-field" | "misnamed-on-member" | "struct-instr-on-member" | "unknown-instr-member" | "unsupported-on-field" | "parent-on-variant" | "ghost-without-default" | "child-without-child-parents" | "tuple-member-without-name" | "tuple-child-parents-member-without-name" | "tuple-variant-member-without-name" | "untyped-nested-parent" | "unnamed-parent-child" | "permeate-on-struct-field" | "unknown-member-repeat-category" | "member-repeat-unterminated"
        ) || c.starts_with("duplicate-member-")
    };
    let exclusive = |c: &str| matches!(c, "tuple-member-without-name" | "tuple-child-parents-member-without-name" | "tuple-variant-member-without-name" | "permeate-on-struct-field" | "member-repeat-unterminated");
    if cp_group(a) && cp_group(b) {
        return false;
    }
    if (exclusive(a) && member_level(b)) || (exclusive(b) && member_level(a)) {
        return false;
    }
    if a == "no-trait-instr" || b == "no-trait-instr" {
        return false;
    }
    // a dedicated #[parent(T| ..)] (the duplicate-member-parent fault writes two) shadows the default #[parent(..)] of the same member
    // for T: a misuse inside that default one is then no misuse for T's conversions (they never select it)
    let parent_group = |c: &str| matches!(c, "duplicate-member-parent" | "untyped-nested-parent" | "unnamed-parent-child");
    if parent_group(a) && parent_group(b) && a != b {
        return false;
    }
    true
}

/// Inject fault class `class` into `item`; None when the class has no admissible position in this item.
pub fn inject(t: &mut Tape, item: &mut Item, class: usize) -> Option<Expected> {
    let cps = analyze(item);
    let is_enum = item.is_enum();
    let p = |own: bool| if own { "" } else { POSTFIX };
    match class {
        0 => {
            // 1: no trait instruction at all
            for a in item.attrs.iter_mut() {
                if let Some(ins) = a.instrs_mut() {
                    ins.retain(|i| !matches!(i, Instr::Trait(_)));
                }
            }
            item.attrs.retain(|a| !matches!(a, Attr::O2o { instrs, .. } if instrs.is_empty()));
            Some(Expected { class: "no-trait-instr".into(), messages: vec!["At least one trait instruction is expected.".into()], parse_stage: false })
        }
        1 => {
            // 2: duplicate trait instruction for the same (kind, fallibility, type)
            let trs: Vec<TraitInstr> = item.trait_instrs().into_iter().cloned().collect();
            if trs.is_empty() {
                return None;
            }
            let tr = t.pick(&trs).clone();
            let k = *t.pick(&tr.kinds());
            let name = if t.coin() { tr.name.clone() } else { basic_name(k, tr.fallible()).to_string() };
            let dup = TraitInstr { name, params: vec![], ..tr };
            let (a, _) = spell_one(t, Instr::Trait(dup));
            insert_at(t, &mut item.attrs, a);
            Some(Expected { class: "duplicate-trait-instr".into(), messages: vec!["Ident here must be unique.".into()], parse_stage: false })
        }
        2 => {
            // 3: fallible instruction without an error type
            let name = t.pick(&["try_map", "try_from", "owned_try_into", "try_into_existing", "try_from_ref"]).to_string();
            let name = if is_enum && name.contains("existing") { "try_into".to_string() } else { name };
            let (a, _) = spell_one(t, Instr::Trait(TraitInstr { name, ty: "Zq".into(), hint: None, err: None, params: vec![] }));
            insert_at(t, &mut item.attrs, a);
            Some(Expected { class: "missing-error-type".into(), messages: vec!["Error type should be specified for fallible instruction.".into()], parse_stage: false })
        }
        3 => {
            // 4: infallible instruction with an error type
            let name = t.pick(&["map", "from", "owned_into", "into_existing", "from_ref"]).to_string();
            let name = if is_enum && name.contains("existing") { "into".to_string() } else { name };
            let (a, _) = spell_one(t, Instr::Trait(TraitInstr { name, ty: "Zq".into(), hint: None, err: Some("E".into()), params: vec![] }));
            insert_at(t, &mut item.attrs, a);
            Some(Expected { class: "superfluous-error-type".into(), messages: vec!["Error type should not be specified for infallible instruction.".into()], parse_stage: false })
        }
        4 => {
            // 5: type-level instruction dedicated to an unknown counterpart
            let zed = unknown_ty(t);
            let ins = match t.below(3) {
                0 => Instr::Ghosts { name: "ghosts".into(), ded: Some(zed.clone()), entries: vec![GhostEntry { child_path: None, ident: if is_enum { "Zv".into() } else { "zg".into() }, action: "{ 1 }".into() }] },
                1 if !is_enum => Instr::ChildParents { ded: Some(zed.clone()), entries: vec![("zk".into(), "Zk".into(), None)] },
                _ => Instr::Where { ded: Some(zed.clone()), preds: "T: Clone".into() },
            };
            let (a, _) = spell_one(t, ins);
            insert_at(t, &mut item.attrs, a);
            Some(Expected { class: "unknown-dedicated-type-level".into(), messages: vec![format!("Type '{}' doesn't match any type specified in trait instructions.", zed)], parse_stage: false })
        }
        5 => {
            // 5: member-level instruction dedicated to an unknown counterpart (struct field, variant, or payload field)
            let zed = unknown_ty(t);
            let msg = format!("Type '{}' doesn't match any type specified in trait instructions.", zed);
            match &mut item.body {
                Body::Struct(_, fields) if !fields.is_empty() => {
                    let n = fields.len();
                    let f = &mut fields[t.below(n)];
                    let ins = match t.below(4) {
                        0 => Instr::Member(MemberInstr { name: t.pick(&["map", "from", "into", "try_map", "ref_into_existing"]).to_string(), ded: Some(zed.clone()), member: Some("zz".into()), action: None }),
                        1 => Instr::Ghost { name: "ghost".into(), ded: Some(zed.clone()), action: Some("{ 1 }".into()) },
                        2 => Instr::Child { ded: Some(zed.clone()), path: "zk".into() },
                        _ => Instr::Parent { ded: Some(zed.clone()), fields: Some(vec![ParentField { attrs: vec![], nested: None, member: "zp".into(), ty: None }]) },
                    };
                    let (a, _) = spell_one(t, ins);
                    insert_at(t, &mut f.attrs, a);
                    Some(Expected { class: "unknown-dedicated-field".into(), messages: vec![msg], parse_stage: false })
                }
                Body::Enum(vs) if !vs.is_empty() => {
                    let n = vs.len();
                    let v = &mut vs[t.below(n)];
                    if !v.fields.is_empty() && t.coin() {
                        // payload field of a tuple or named variant
                        let nf = v.fields.len();
                        let f = &mut v.fields[t.below(nf)];
                        let ins = match t.below(2) {
                            0 => Instr::Member(MemberInstr { name: t.pick(&["map", "from", "into", "try_map"]).to_string(), ded: Some(zed.clone()), member: Some("zz".into()), action: None }),
                            _ => Instr::Ghost { name: "ghost".into(), ded: Some(zed.clone()), action: Some("{ 1 }".into()) },
                        };
                        let (a, _) = spell_one(t, ins);
                        insert_at(t, &mut f.attrs, a);
                        return Some(Expected { class: "unknown-dedicated-variant-field".into(), messages: vec![msg], parse_stage: false });
                    }
                    let ins = match t.below(5) {
                        0 => Instr::Member(MemberInstr { name: t.pick(&["map", "from", "into", "try_map"]).to_string(), ded: Some(zed.clone()), member: Some("Zz".into()), action: None }),
                        1 => Instr::Ghost { name: "ghost".into(), ded: Some(zed.clone()), action: Some("{ todo!() }".into()) },
                        2 => Instr::Literal { ded: Some(zed.clone()), tokens: "1".into() },
                        3 => Instr::Pattern { ded: Some(zed.clone()), tokens: "_".into() },
                        _ => Instr::TypeHint { ded: Some(zed.clone()), hint: Hint::Struct },
                    };
                    let (a, _) = spell_one(t, ins);
                    insert_at(t, &mut v.attrs, a);
                    Some(Expected { class: "unknown-dedicated-variant".into(), messages: vec![msg], parse_stage: false })
                }
                _ => None,
            }
        }
        6 => {
            // 6a: two default ghosts / child_parents / where_clause
            let which = t.below(3);
            let (name, mk): (&str, Box<dyn Fn(usize) -> Instr>) = match which {
                0 => ("ghosts", Box::new(move |i| Instr::Ghosts { name: "ghosts".into(), ded: None, entries: vec![GhostEntry { child_path: None, ident: if is_enum { format!("Zv{}", i) } else { format!("zg{}", i) }, action: "{ todo!() }".into() }] })),
                1 if !is_enum => ("child_parents", Box::new(|i| Instr::ChildParents { ded: None, entries: vec![(format!("zk{}", i), "Zk".into(), None)] })),
                _ => ("where_clause", Box::new(|_| Instr::Where { ded: None, preds: "T: Clone".into() })),
            };
            let existing = item.attrs.iter().flat_map(|a| a.instrs()).any(|i| i.name() == name && i.ded().is_none());
            // a default `ghosts` collides per kind: `ghosts_owned` + `ghosts_ref` in the base do not count as one default each for both
            let need = if existing && name != "ghosts" { 1 } else { 2 };
            for i in 0..need {
                let (a, _) = spell_one(t, mk(i));
                insert_at(t, &mut item.attrs, a);
            }
            Some(Expected { class: format!("two-default-{}", name), messages: vec![format!("There can be at most one default #[{}(...)] instruction.", name)], parse_stage: false })
        }
        7 => {
            // 6b: two instructions dedicated to the same type
            let d: Vec<&Cp> = cps.iter().filter(|c| c.dedicable).collect();
            if d.is_empty() {
                return None;
            }
            let ty = t.pick(&d).ty.clone();
            let which = t.below(3);
            let name = match which {
                0 => "ghosts",
                1 if !is_enum => "child_parents",
                _ => "where_clause",
            };
            let mk = |i: usize| -> Instr {
                match name {
                    "ghosts" => Instr::Ghosts { name: "ghosts".into(), ded: Some(ty.clone()), entries: vec![GhostEntry { child_path: None, ident: if is_enum { format!("Zv{}", i) } else { format!("zg{}", i) }, action: "{ todo!() }".into() }] },
                    "child_parents" => Instr::ChildParents { ded: Some(ty.clone()), entries: vec![(format!("zk{}", i), "Zk".into(), None)] },
                    _ => Instr::Where { ded: Some(ty.clone()), preds: "T: Clone".into() },
                }
            };
            for i in 0..2 {
                let (a, _) = spell_one(t, mk(i));
                insert_at(t, &mut item.attrs, a);
            }
            Some(Expected { class: format!("two-dedicated-{}", name), messages: vec![format!("Dedicated #[{}(...)] instruction for type {} is already defined.", name, path_str(&ty))], parse_stage: false })
        }
        8 => {
            // 6c: duplicate default / dedicated member-level parent (field) or literal / pattern / type_hint (variant)
            let d: Vec<&Cp> = cps.iter().filter(|c| c.dedicable).collect();
            let ded = if !d.is_empty() && t.coin() { Some(t.pick(&d).ty.clone()) } else { None };
            let (name, list): (&str, &mut Vec<Attr>) = match &mut item.body {
                Body::Struct(_, fields) if !fields.is_empty() => {
                    let n = fields.len();
                    ("parent", &mut fields[t.below(n)].attrs)
                }
                Body::Enum(vs) if !vs.is_empty() => {
                    let n = vs.len();
                    (*t.pick(&["literal", "pattern", "type_hint"]), &mut vs[t.below(n)].attrs)
                }
                _ => return None,
            };
            let mk = |i: usize| -> Instr {
                match name {
                    "parent" => Instr::Parent { ded: ded.clone(), fields: Some(vec![ParentField { attrs: vec![], nested: None, member: format!("zp{}", i), ty: None }]) },
                    "literal" => Instr::Literal { ded: ded.clone(), tokens: format!("{}", 90 + i) },
                    "pattern" => Instr::Pattern { ded: ded.clone(), tokens: format!("{}..", 90 + i) },
                    _ => Instr::TypeHint { ded: ded.clone(), hint: Hint::Struct },
                }
            };
            for i in 0..2 {
                let (a, _) = spell_one(t, mk(i));
                insert_at(t, list, a);
            }
            let m = match &ded {
                None => format!("There can be at most one default #[{}(...)] instruction for a given member.", name),
                Some(ty) => format!("Dedicated #[{}(...)] instruction for type {} is already defined.", name, path_str(ty)),
            };
            Some(Expected { class: format!("duplicate-member-{}", name), messages: vec![m], parse_stage: false })
        }
        9 => {
            // 6d: same path twice inside one child_parents
            if is_enum {
                return None;
            }
            let dd = if t.coin() { None } else { cps.iter().find(|c| c.dedicable).map(|c| c.ty.clone()) };
            let (a, _) = spell_one(t, Instr::ChildParents { ded: dd, entries: vec![("zk".into(), "Zk".into(), None), ("zk.zl".into(), "Zl".into(), None), ("zk".into(), "Zk2".into(), None)] });
            // only admissible when it does not itself become a second default / dedicated instruction
            let ded_of_new = a.instrs()[0].ded().cloned();
            if item.attrs.iter().flat_map(|x| x.instrs()).any(|i| matches!(i, Instr::ChildParents { .. }) && i.ded().cloned() == ded_of_new) {
                return None;
            }
            insert_at(t, &mut item.attrs, a);
            Some(Expected { class: "child-parents-duplicate-path".into(), messages: vec!["Ident here must be unique.".into()], parse_stage: false })
        }
        10 => {
            // 7a: member instruction at type level
            let name = *t.pick(&["parent", "as_type", "literal", "pattern", "repeat", "skip_repeat", "stop_repeat", "type_hint"]);
            let ins = Instr::Raw { name: name.into(), args: match name {
                "parent" => Some("zp".into()),
                "as_type" => Some("i32".into()),
                "literal" => Some("1".into()),
                "pattern" => Some("_".into()),
                "type_hint" => Some("as {}".into()),
                _ => None,
            } };
            let (a, own) = spell_one(t, ins);
            insert_at(t, &mut item.attrs, a);
            let m = if is_enum && (name == "parent" || name == "as_type") { format!("Member instruction '{}' is not applicable to enums.{}", name, p(own)) } else { format!("Member instruction '{}' should be used on a member.{}", name, p(own)) };
            Some(Expected { class: "member-instr-at-type-level".into(), messages: vec![m], parse_stage: false })
        }
        11 => {
            // 7b: misnamed
            if t.coin() {
                let name = *t.pick(&["ghost", "ghost_owned", "ghost_ref", "child", "children"]);
                let guess = match name {
                    "ghost" => "ghosts",
                    "ghost_owned" => "ghosts_owned",
                    "ghost_ref" => "ghosts_ref",
                    _ => "child_parents",
                };
                let ins = Instr::Raw { name: name.into(), args: Some(if name.starts_with("ghost") { "zg: { 1 }".into() } else { "zk: Zk".to_string() }) };
                let (a, own) = spell_one(t, ins);
                insert_at(t, &mut item.attrs, a);
                let m = if is_enum && name == "child" { format!("Member instruction 'child' is not applicable to enums.{}", p(own)) } else { format!("Perhaps you meant '{}'?{}", guess, p(own)) };
                Some(Expected { class: "misnamed-at-type-level".into(), messages: vec![m], parse_stage: false })
            } else {
                let name = *t.pick(&["children", "child_parents"]);
                let ins = Instr::Raw { name: name.into(), args: Some("zk".into()) };
                let (a, own) = spell_one(t, ins);
                let list = member_list(t, item)?;
                insert_at(t, list, a);
                let m = if is_enum && name == "children" { format!("Struct instruction 'children' is not applicable to enums.{}", p(own)) } else { format!("Perhaps you meant 'child'?{}", p(own)) };
                Some(Expected { class: "misnamed-on-member".into(), messages: vec![m], parse_stage: false })
            }
        }
        12 => {
            // 7c: struct instruction on a member
            let name = *t.pick(&["where_clause", "allow_unknown"]);
            let ins = Instr::Raw { name: name.into(), args: if name == "where_clause" { Some("T: Clone".into()) } else { None } };
            let (a, own) = spell_one(t, ins);
            let list = member_list(t, item)?;
            insert_at(t, list, a);
            Some(Expected { class: "struct-instr-on-member".into(), messages: vec![format!("Struct instruction '{}' should be used on a struct.{}", name, p(own))], parse_stage: false })
        }
        13 => {
            // 7d: unknown name inside #[o2o(..)]
            let name = *t.pick(&["mapp", "try_owned_into", "ghostz", "try_ref_into"]);
            let ins = Instr::Raw { name: name.into(), args: if t.coin() { Some("D".into()) } else { None } };
            if t.coin() {
                insert_at(t, &mut item.attrs, Attr::wrapped(vec![ins]));
                Some(Expected { class: "unknown-instr-type-level".into(), messages: vec![format!("Struct instruction '{}' is not supported.", name)], parse_stage: false })
            } else {
                let list = member_list(t, item)?;
                insert_at(t, list, Attr::wrapped(vec![ins]));
                Some(Expected { class: "unknown-instr-member".into(), messages: vec![format!("Member instruction '{}' is not supported.", name)], parse_stage: false })
            }
        }
        14 => {
            // 7e: instruction not supported for this kind of member
            match &mut item.body {
                Body::Struct(_, fields) if !fields.is_empty() => {
                    let n = fields.len();
                    let f = &mut fields[t.below(n)];
                    let name = *t.pick(&["literal", "pattern", "type_hint", "ghosts", "ghosts_owned", "ghosts_ref"]);
                    let ins = match name {
                        "literal" => Instr::Literal { ded: None, tokens: "1".into() },
                        "pattern" => Instr::Pattern { ded: None, tokens: "_".into() },
                        "type_hint" => Instr::TypeHint { ded: None, hint: Hint::Tuple },
                        n => Instr::Ghosts { name: n.into(), ded: None, entries: vec![GhostEntry { child_path: None, ident: "zg".into(), action: "{ 1 }".into() }] },
                    };
                    let (a, _) = spell_one(t, ins);
                    insert_at(t, &mut f.attrs, a);
                    Some(Expected { class: "unsupported-on-field".into(), messages: vec![format!("Instruction #[{}(...)] is not supported for this member.", name)], parse_stage: false })
                }
                Body::Enum(vs) if !vs.is_empty() => {
                    let n = vs.len();
                    let v = &mut vs[t.below(n)];
                    let pf = if t.coin() { None } else { Some(vec![ParentField { attrs: vec![], nested: None, member: "zp".into(), ty: None }]) };
                    let (a, _) = spell_one(t, Instr::Parent { ded: None, fields: pf });
                    insert_at(t, &mut v.attrs, a);
                    Some(Expected { class: "parent-on-variant".into(), messages: vec!["Instruction #[parent(...)] is not supported for this member.".into()], parse_stage: false })
                }
                _ => None,
            }
        }
        15 => {
            // 8: ghost without default where From needs one
            let needing: Vec<String> = cps.iter().filter(|c| c.from_needs_default()).map(|c| c.ty.clone()).collect();
            if needing.is_empty() {
                return None;
            }
            let fields = fields_mut(item)?;
            let cands: Vec<usize> = fields.iter().enumerate().filter(|(_, f)| is_plain_struct_field(f)).map(|(i, _)| i).collect();
            if cands.is_empty() {
                return None;
            }
            let fi = *t.pick(&cands);
            let dedicable: Vec<&String> = needing.iter().filter(|x| !x.starts_with('(')).collect();
            let ded = if !dedicable.is_empty() && t.coin() { Some((*t.pick(&dedicable)).clone()) } else { None };
            let member = fields[fi].name.clone().unwrap_or_else(|| format!("{}", fi));
            let (a, _) = spell_one(t, Instr::Ghost { name: "ghost".into(), ded: ded.clone(), action: None });
            fields[fi].attrs.push(a);
            let msgs = match ded {
                Some(d) => vec![format!("Member instruction #[ghost(...)] for member '{}' should provide default value for type {}", member, path_str(&d))],
                None => needing.iter().map(|d| format!("Member instruction #[ghost(...)] for member '{}' should provide default value for type {}", member, type_path_str(d))).collect(),
            };
            Some(Expected { class: "ghost-without-default".into(), messages: msgs, parse_stage: false })
        }
        16 => {
            // 9: child without (complete) child_parents under an Into kind
            let into_tys: Vec<String> = cps.iter().filter(|c| c.has_into()).map(|c| c.ty.clone()).collect();
            if into_tys.is_empty() || is_enum {
                return None;
            }
            let default_cp = item.attrs.iter().flat_map(|a| a.instrs()).any(|i| matches!(i, Instr::ChildParents { ded: None, .. }));
            let ded_cps: Vec<String> = item.attrs.iter().flat_map(|a| a.instrs()).filter_map(|i| if let Instr::ChildParents { ded: Some(d), .. } = i { Some(d.clone()) } else { None }).collect();
            let fields = fields_mut(item)?;
            let cands: Vec<usize> = fields.iter().enumerate().filter(|(_, f)| is_plain_struct_field(f)).map(|(i, _)| i).collect();
            if cands.is_empty() {
                return None;
            }
            let fi = *t.pick(&cands);
            let (a, _) = spell_one(t, Instr::Child { ded: None, path: "zq".into() });
            fields[fi].attrs.push(a);
            let msgs = into_tys
                .iter()
                .map(|ty| if default_cp || ded_cps.contains(ty) { format!("Missing 'zq: [Type Path]' instruction for type {}", type_path_str(ty)) } else { format!("Missing #[child_parents(...)] instruction for {}", type_path_str(ty)) })
                .collect();
            Some(Expected { class: "child-without-child-parents".into(), messages: msgs, parse_stage: false })
        }
        17 => {
            // 10: tuple struct / tuple variant facing `as {}` with a member lacking a name
            // the same rule inside a nested struct: a tuple struct's #[child(zc.0)] member without a name while #[child_parents]
            // says that 'zc.0' is a struct-form type (and 'zc' a tuple-form one: the form of the innermost struct counts)
            let has_child_parents = item.attrs.iter().flat_map(|a| a.instrs()).any(|i| matches!(i, Instr::ChildParents { .. }));
            // the rule is due for an Into / IntoExisting conversion whose body is generated (no quick return)
            let into_like = cps.iter().any(|c| (0..2).any(|f| [OI, RI, OIE, RIE].iter().any(|k| c.cells[f][*k] && !c.ret[f][*k])));
            if matches!(item.body, Body::Struct(Shape::Tuple, _)) && !has_child_parents && into_like && t.coin() {
                let (cp_attr, _) = spell_one(t, Instr::ChildParents { ded: None, entries: vec![("zc".into(), "Zt".into(), Some(Hint::Tuple)), ("zc . 0".into(), "Zu".into(), Some(Hint::Struct))] });
                item.attrs.push(cp_attr);
                if let Body::Struct(_, fields) = &mut item.body {
                    let (a, _) = spell_one(t, Instr::Child { ded: None, path: "zc . 0".into() });
                    fields.push(FieldDef { attrs: vec![a], name: None, ty: "i32".into() });
                    let fi = fields.len() - 1;
                    return Some(Expected { class: "tuple-child-parents-member-without-name".into(), messages: vec![format!("Member {} should have member trait instruction with field name", fi)], parse_stage: false });
                }
            }
            match &mut item.body {
                Body::Struct(Shape::Tuple, fields) => {
                    let cp = cps.iter().find(|c| c.hint == Some(Hint::Struct) && !cell_all_ret(c))?;
                    let cands: Vec<usize> = fields.iter().enumerate().filter(|(_, f)| f.attrs.iter().flat_map(|a| a.instrs()).any(|i| matches!(i, Instr::Member(m) if m.name == "map" && m.member.is_some()))).map(|(i, _)| i).collect();
                    if cands.is_empty() {
                        return None;
                    }
                    let fi = *t.pick(&cands);
                    fields[fi].attrs.clear();
                    let _ = cp;
                    Some(Expected { class: "tuple-member-without-name".into(), messages: vec![format!("Member {} should have member trait instruction with field name", fi)], parse_stage: false })
                }
                Body::Enum(vs) => {
                    let cands: Vec<usize> = vs.iter().enumerate().filter(|(_, v)| v.shape == Shape::Tuple && v.attrs.is_empty() && v.fields.iter().all(|f| f.attrs.is_empty())).map(|(i, _)| i).collect();
                    if cands.is_empty() || cps.iter().all(cell_all_ret) {
                        return None;
                    }
                    let vi = *t.pick(&cands);
                    let (a, _) = spell_one(t, Instr::TypeHint { ded: None, hint: Hint::Struct });
                    vs[vi].attrs.push(a);
                    Some(Expected { class: "tuple-variant-member-without-name".into(), messages: vec![format!("Member 0 of a variant {} should have member trait instruction with field name", vs[vi].name)], parse_stage: false })
                }
                _ => None,
            }
        }
        18 => {
            // 11: untyped nested parent under a From kind / unnamed child without a name under a named target
            if is_enum {
                return None;
            }
            let named = matches!(item.body, Body::Struct(Shape::Named, _));
            let has_from = cps.iter().any(|c| c.has_from());
            let has_into_like = cps.iter().any(|c| c.has_into() || c.has_into_existing());
            let fields = fields_mut(item)?;
            let cands: Vec<usize> = fields.iter().enumerate().filter(|(_, f)| is_plain_struct_field(f)).map(|(i, _)| i).collect();
            if cands.is_empty() {
                return None;
            }
            let fi = *t.pick(&cands);
            if has_from && t.coin() {
                fields[fi].ty = "Inner".into();
                let (a, _) = spell_one(t, Instr::Parent { ded: None, fields: Some(vec![ParentField { attrs: vec![], nested: None, member: "zp".into(), ty: None }, ParentField { attrs: vec![], nested: Some(vec![ParentField { attrs: vec![], nested: None, member: "zq".into(), ty: None }]), member: "zinner".into(), ty: None }]) });
                fields[fi].attrs.push(a);
                Some(Expected { class: "untyped-nested-parent".into(), messages: vec!["Field 'zinner' should have type here, e.g. 'zinner: SomeStruct'".into()], parse_stage: false })
            } else if has_from && t.chance(1, 3) {
                // the outer level lacks its type, the inner one has it: the outer one is still a violation
                fields[fi].ty = "Inner".into();
                let deep = ParentField { attrs: vec![], nested: Some(vec![ParentField { attrs: vec![], nested: Some(vec![ParentField { attrs: vec![], nested: None, member: "zr".into(), ty: None }]), member: "zinner2".into(), ty: Some("Inner2".into()) }]), member: "zinner".into(), ty: None };
                let (a, _) = spell_one(t, Instr::Parent { ded: None, fields: Some(vec![deep]) });
                fields[fi].attrs.push(a);
                Some(Expected { class: "untyped-nested-parent".into(), messages: vec!["Field 'zinner' should have type here, e.g. 'zinner: SomeStruct'".into()], parse_stage: false })
            } else if has_from && t.coin() {
                // a chain of two untyped levels: each level is a rule violation of its own and must be named
                fields[fi].ty = "Inner".into();
                let deep = ParentField { attrs: vec![], nested: Some(vec![ParentField { attrs: vec![], nested: Some(vec![ParentField { attrs: vec![], nested: None, member: "zr".into(), ty: None }]), member: "zinner2".into(), ty: None }]), member: "zinner".into(), ty: None };
                let (a, _) = spell_one(t, Instr::Parent { ded: None, fields: Some(vec![ParentField { attrs: vec![], nested: None, member: "zp".into(), ty: None }, deep]) });
                fields[fi].attrs.push(a);
                Some(Expected { class: "untyped-nested-parent".into(), messages: vec!["Field 'zinner' should have type here, e.g. 'zinner: SomeStruct'".into(), "Field 'zinner2' should have type here, e.g. 'zinner2: SomeStruct'".into()], parse_stage: false })
            } else if named && has_into_like {
                fields[fi].ty = "Inner".into();
                let (a, _) = spell_one(t, Instr::Parent { ded: None, fields: Some(vec![ParentField { attrs: vec![], nested: None, member: "0".into(), ty: None }]) });
                fields[fi].attrs.push(a);
                Some(Expected { class: "unnamed-parent-child".into(), messages: vec!["Member 0 should have an instruction that specifies corresponding field name of type".into()], parse_stage: false })
            } else {
                None
            }
        }
        19 => {
            // 12: conflicting trait-level repeat parameters (detected while parsing)
            let trs: Vec<TraitInstr> = item.trait_instrs().into_iter().cloned().collect();
            if trs.is_empty() {
                return None;
            }
            let tr = t.pick(&trs).clone();
            let fall = tr.fallible();
            let zq_hint = if tr.ty.starts_with('(') { Some(Hint::Tuple) } else { tr.hint };
            let mk = |ty: &str, params: Vec<TParam>| Instr::Trait(TraitInstr { name: tr.name.clone(), ty: ty.into(), hint: zq_hint, err: if fall { Some("E".into()) } else { None }, params });
            let (instrs, msg): (Vec<Instr>, &str) = match t.below(9) {
                // the repeating instruction leaves the parameter unset; a follower that sets it without skip_repeat would lose it
                7 => (vec![mk("Zr1", vec![TParam::Repeat(vec![]), TParam::Vars(vec![("zv".into(), "1".into())])]), mk("Zr2", vec![TParam::Update("upd()".into())])], "Update statement will be overriden. Did you forget to use 'skip_repeat'?"),
                8 => (vec![mk("Zr1", vec![TParam::Repeat(vec![]), TParam::Return("make(@)".into())]), mk("Zr2", vec![TParam::Vars(vec![("zw".into(), "2".into())])])], "Vars will be overriden. Did you forget to use 'skip_repeat'?"),
                0 => (vec![mk("Zr1", vec![TParam::Repeat(vec![]), TParam::Vars(vec![("zv".into(), "1".into())])]), mk("Zr2", vec![TParam::Repeat(vec![]), TParam::Vars(vec![("zw".into(), "2".into())])])], "Previous repeat() instruction must be terminated with 'stop_repeat'"),
                1 => (vec![mk("Zr1", vec![TParam::Repeat(vec!["vars".into()]), TParam::Vars(vec![("zv".into(), "1".into())])]), mk("Zr2", vec![TParam::Vars(vec![("zw".into(), "2".into())])])], "Vars will be overriden. Did you forget to use 'skip_repeat'?"),
                2 => (vec![mk("Zr1", vec![TParam::Vars(vec![("zv".into(), "1".into())]), TParam::Vars(vec![("zw".into(), "2".into())])])], "Instruction parameter 'vars' was already set."),
                3 => (vec![mk("Zr1", vec![TParam::Repeat(vec!["bogus".into()]), TParam::Vars(vec![("zv".into(), "1".into())])])], "#[repeat] of instruction type 'bogus' is not supported. Supported types are: vars, update, quick_return, default_case"),
                4 => (vec![mk("Zr1", vec![TParam::Repeat(vec!["update".into()]), TParam::Update("Default::default()".into())]), mk("Zr2", vec![TParam::Update("upd()".into())])], "Update statement will be overriden. Did you forget to use 'skip_repeat'?"),
                5 => (vec![mk("Zr1", vec![TParam::Repeat(vec!["quick_return".into()]), TParam::Return("make(@)".into())]), mk("Zr2", vec![TParam::Return("make2(@)".into())])], "Quick Return statement will be overriden. Did you forget to use 'skip_repeat'?"),
                _ => (vec![mk("Zr1", vec![TParam::Repeat(vec!["default_case".into()]), TParam::DefaultCase("todo!()".into())]), mk("Zr2", vec![TParam::DefaultCase("panic!()".into())])], "Default Case statement will be overriden. Did you forget to use 'skip_repeat'?"),
            };
            // appended after the existing trait instructions so that the base's own instructions are unaffected
            for i in instrs {
                let (a, _) = spell_one(t, i);
                item.attrs.push(a);
            }
            Some(Expected { class: "trait-repeat-conflict".into(), messages: vec![msg.into()], parse_stage: true })
        }
        20 => {
            // 12: member-level repeat misuse diagnosed by validation / parsing
            match t.below(2) {
                0 => {
                    let fields = fields_mut(item)?;
                    if fields.is_empty() {
                        return None;
                    }
                    let n = fields.len();
                    let fi = t.below(n);
                    let member = fields[fi].name.clone();
                    let _ = member;
                    fields[fi].attrs.push(Attr::wrapped(vec![Instr::Repeat { permeate: true, cats: vec![], parens: true }]));
                    Some(Expected { class: "permeate-on-struct-field".into(), messages: vec!["Permeating repeat instruction is only applicable to enum variant fields.".into()], parse_stage: false })
                }
                _ => {
                    let list = member_list(t, item)?;
                    list.push(Attr::wrapped(vec![Instr::Repeat { permeate: false, cats: vec!["bogus".into()], parens: true }]));
                    Some(Expected { class: "unknown-member-repeat-category".into(), messages: vec!["#[repeat] of instruction type 'bogus' is not supported. Supported types are: map, child, parent, ghost, type_hint".into()], parse_stage: true })
                }
            }
        }
        _ => {
            // 12: second member-level #[repeat] without #[stop_repeat] — must be a diagnostic, not a panic
            let lists = all_member_lists(item);
            if lists < 2 {
                return None;
            }
            let mut k = 0;
            let seq_ok = match &mut item.body {
                Body::Struct(_, fields) if fields.len() >= 2 => {
                    fields[0].attrs.push(Attr::wrapped(vec![Instr::Repeat { permeate: false, cats: vec![], parens: false }]));
                    fields[1].attrs.push(Attr::wrapped(vec![Instr::Repeat { permeate: false, cats: vec![], parens: t.coin() }]));
                    true
                }
                Body::Enum(vs) if vs.len() >= 2 => {
                    vs[0].attrs.push(Attr::wrapped(vec![Instr::Repeat { permeate: false, cats: vec![], parens: false }]));
                    vs[1].attrs.push(Attr::wrapped(vec![Instr::Repeat { permeate: false, cats: vec![], parens: false }]));
                    true
                }
                _ => false,
            };
            k += 1;
            let _ = k;
            if !seq_ok {
                return None;
            }
            Some(Expected { class: "member-repeat-unterminated".into(), messages: vec!["must be terminated with".into()], parse_stage: true })
        }
    }
}

fn cell_all_ret(c: &Cp) -> bool {
    // every requested cell carries a quick return (then the name rule is not enforced)
    (0..2).all(|f| (0..6).all(|k| !c.cells[f][k] || c.ret[f][k]))
}

fn type_path_str(ty: &str) -> String {
    if ty.starts_with('(') {
        ty.parse::<proc_macro2::TokenStream>().map(|t| t.to_string()).unwrap_or_else(|_| ty.to_string())
    } else {
        path_str(ty)
    }
}

fn all_member_lists(item: &Item) -> usize {
    let mut n = 0;
    item.for_each_attr_list(&mut |s, _| {
        if s.is_member() {
            n += 1
        }
    });
    n
}

/// A random member-level attribute list (field, variant or payload field).
fn member_list<'a>(t: &mut Tape, item: &'a mut Item) -> Option<&'a mut Vec<Attr>> {
    let n = all_member_lists(item);
    if n == 0 {
        return None;
    }
    let target = t.below(n);
    let mut idx = 0;
    match &mut item.body {
        Body::Struct(_, fields) | Body::Union(fields) => fields.get_mut(target).map(|f| &mut f.attrs),
        Body::Enum(vs) => {
            for v in vs.iter_mut() {
                if idx == target {
                    return Some(&mut v.attrs);
                }
                idx += 1;
                for f in v.fields.iter_mut() {
                    if idx == target {
                        return Some(&mut f.attrs);
                    }
                    idx += 1;
                }
            }
            None
        }
    }
}

/// Base + `n` faults (used by C19 / C18 corpora as well).
pub fn gen_faulty(t: &mut Tape, n: usize) -> (Item, Vec<String>) {
    let (mut item, mut labels) = gen_item(t, &base_opts());
    let mut done = 0;
    let mut tries = 0;
    while done < n && tries < 3 * n {
        tries += 1;
        let class = t.below(N_CLASSES);
        if class == 0 && done > 0 {
            continue;
        }
        if let Some(e) = inject(t, &mut item, class) {
            labels.push(format!("fault:{}", e.class));
            done += 1;
        }
    }
    (item, labels)
}

pub struct Faults;

pub fn parts() -> Vec<Box<dyn Part>> {
    vec![Box::new(Faults)]
}

fn missing(expected: &[String], actual: &[String]) -> Vec<String> {
    expected.iter().filter(|e| !actual.iter().any(|a| a.contains(e.as_str()))).cloned().collect()
}

impl Part for Faults {
    fn name(&self) -> &'static str {
        "faults"
    }
    fn prop(&self) -> &'static str {
        "C15"
    }
    fn rule(&self) -> String {
        "Base = valid-mode L1 input (no repeat); then 0 (1/4), 1 (1/2) or 2 (1/4) faults out of 22 injectors covering the documented misuse classes, each at a random admissible position and in random bare/#[o2o()] spelling. Oracle: 0 faults => accepted; 1 fault => rejected and the diagnostics contain the table's message(s) for that fault; 2 faults => rejected and both messages are present in the same error. Non-trivial = >= 1 fault, the input carries >= 3 other instructions and the fault is not the first attribute; distinct by input text.".into()
    }
    fn cases(&self, tier: Tier) -> usize {
        match tier {
            Tier::Quick => 96_000,
            Tier::Thorough => 1_600_000,
        }
    }
    fn max_tape(&self) -> usize {
        320
    }
    fn run_case(&self, tape: &[u16], ctx: &Ctx) -> CaseReport {
        let mut t = Tape::new(tape);
        let (mut item, mut labels) = gen_item(&mut t, &base_opts());
        if t.chance(1, 6) {
            // still valid: a repeated parameter of one category and a follower that owns a parameter of another category
            let trs: Vec<TraitInstr> = item.trait_instrs().into_iter().cloned().collect();
            // (Into-only instruction names: extra From kinds would make a default-less #[ghost] of the base invalid)
            // (and not into_existing names: `..update` has no meaning there)
            if let Some(tr) = trs.iter().find(|x| !x.kinds().iter().any(|k| *k == FO || *k == FR || *k == OIE || *k == RIE)).cloned() {
                let fall = tr.fallible();
                // the added counterparts are built in the same form as the one they are modelled on (default #[ghosts] apply to them too)
                let zq_hint = if tr.ty.starts_with('(') { Some(Hint::Tuple) } else { tr.hint };
                let mk = |ty: &str, params: Vec<TParam>| Attr::bare(Instr::Trait(TraitInstr { name: tr.name.clone(), ty: ty.into(), hint: zq_hint, err: if fall { Some("E".into()) } else { None }, params }));
                let (carrier, follower): (Vec<TParam>, Vec<TParam>) = match t.below(4) {
                    0 => (vec![TParam::Repeat(vec!["update".into()]), TParam::Update("Default::default()".into())], vec![TParam::DefaultCase("todo!()".into())]),
                    1 => (vec![TParam::Repeat(vec!["vars".into()]), TParam::Vars(vec![("zv".into(), "1".into())])], vec![TParam::Update("upd()".into())]),
                    2 => (vec![TParam::Repeat(vec!["default_case".into()]), TParam::DefaultCase("todo!()".into())], vec![TParam::Vars(vec![("zw".into(), "2".into())]), TParam::Return("make(@)".into())]),
                    _ => (vec![TParam::Repeat(vec!["quick_return".into()]), TParam::Return("make(@)".into())], vec![TParam::Vars(vec![("zw".into(), "2".into())])]),
                };
                item.attrs.push(mk("Zq1", carrier));
                item.attrs.push(mk("Zq2", follower));
                // terminate the block so that later instructions of the same name are unaffected
                item.attrs.push(mk("Zq3", vec![TParam::StopRepeat]));
                labels.push("valid-trait-repeat-pair".into());
            }
        }
        let base_text = item.render();
        let base_instrs = item.count_instrs();
        let nf = t.weighted(&[1, 2, 1]);
        let mut expected: Vec<Expected> = vec![];
        let mut tries = 0;
        while expected.len() < nf && tries < 6 {
            tries += 1;
            let class = t.below(N_CLASSES);
            if class == 0 && (!expected.is_empty() || nf > 1) {
                continue;
            }
            let snapshot = item.clone();
            if let Some(e) = inject(&mut t, &mut item, class) {
                if expected.iter().all(|p: &Expected| compatible(&p.class, &e.class)) {
                    labels.push(format!("fault:{}", e.class));
                    expected.push(e);
                } else {
                    item = snapshot;
                }
            }
        }
        labels.push(format!("faults:{}", expected.len()));
        let text = item.render();
        let out = expand(&text);
        labels.push(format!("outcome:{}", out.kind()));
        let nontrivial = !expected.is_empty() && base_instrs >= 3 && !text.trim_start().starts_with(&first_fault_attr(&base_text, &text));
        let detail = |why: &str, out: &Outcome| json!({"input": text, "base": base_text, "expected": expected.iter().map(|e| json!({"class": e.class, "messages": e.messages})).collect::<Vec<_>>(), "outcome": out.short(), "why": why});
        let verdict = match (&out, expected.len()) {
            (Outcome::NotAnItem(e), _) => Verdict::Discard(format!("not-an-item: {}", e.chars().take(40).collect::<String>())),
            (Outcome::Ok(_), 0) => Verdict::Pass,
            (Outcome::Err(m), 0) => {
                let sig = zero_fault_sig(&item, m);
                ctx.fail_or_known("C15", sig.as_deref(), format!("input that breaks no documented rule is rejected: {:?}", m), detail("valid input rejected", &out))
            }
            (Outcome::Panic(m), 0) => ctx.fail_or_known("C15", Some("panic-is-C16"), format!("valid input panics: {}", m), detail("panic", &out)),
            (Outcome::Ok(_), _) => ctx.fail_or_known("C15", accept_sig(&expected).as_deref(), format!("misuse accepted without a diagnostic: {}", expected.iter().map(|e| e.class.clone()).collect::<Vec<_>>().join(" + ")), detail("misuse accepted", &out)),
            (Outcome::Panic(m), _) => ctx.fail_or_known("C15", Some(&format!("panic:{}", expected.iter().map(|e| e.class.clone()).collect::<Vec<_>>().join("+"))), format!("misuse makes the derive panic instead of reporting: {}", m), detail("panic", &out)),
            (Outcome::Err(m), _) => {
                let mut miss = vec![];
                for e in &expected {
                    let ms = missing(&e.messages, m);
                    if !ms.is_empty() {
                        miss.push((e.class.clone(), ms));
                    }
                }
                if miss.is_empty() {
                    Verdict::Pass
                } else {
                    let sig = missing_sig(&expected, &miss);
                    ctx.fail_or_known("C15", sig.as_deref(), format!("diagnostic(s) missing for {:?}; reported: {:?}", miss, m), detail("diagnostic missing", &out))
                }
            }
        };
        CaseReport { key: text, nontrivial, labels, verdict }
    }
}

fn first_fault_attr(base: &str, faulty: &str) -> String {
    // first line of the faulty text that is not in the base text (approximation of "fault in first position")
    for l in faulty.lines() {
        if !base.contains(l) {
            return l.to_string();
        }
    }
    "\u{0}".to_string()
}

/// Signatures for open findings (narrow predicates).
fn zero_fault_sig(_item: &Item, msgs: &[String]) -> Option<String> {
    if msgs.iter().any(|m| m.contains("should have member trait instruction with field name") || m.contains("should specify corresponding field name")) {
        return Some("fallible-member-name-lookup".into());
    }
    None
}

fn accept_sig(expected: &[Expected]) -> Option<String> {
    Some(format!("accepted:{}", expected.iter().map(|e| e.class.clone()).collect::<Vec<_>>().join("+")))
}

fn missing_sig(expected: &[Expected], miss: &[(String, Vec<String>)]) -> Option<String> {
    // a parse-stage fault aborts before validation: the other fault's message is lost
    if expected.len() == 2 && expected.iter().any(|e| e.parse_stage) && miss.iter().all(|(c, _)| expected.iter().any(|e| &e.class == c && !e.parse_stage) || expected.iter().filter(|e| e.parse_stage).count() == 2) {
        return Some("parse-stage-error-hides-others".into());
    }
    Some(format!("missing:{}", miss.iter().map(|(c, _)| c.clone()).collect::<Vec<_>>().join("+")))
}
