//! C19 — expansion is a deterministic function of the input.

use crate::evidence::CheckResult;
use crate::gen::{gen_item, GenOpts};
use crate::known::Known;
use crate::runner::{CaseReport, Ctx, Part, Tier};
use crate::tape::Tape;
use crate::wild::{gen_soup_item, gen_wild, wild_opts};
use crate::xp::{expand, Outcome};
use crate::xproc;
use serde_json::json;

pub struct InProcess {
    opts: GenOpts,
}

pub fn parts() -> Vec<Box<dyn Part>> {
    vec![Box::new(InProcess { opts: wild_opts() })]
}

/// Inputs for C19: weighted towards several simultaneous rule breaks.
pub fn gen_input(t: &mut Tape, opts: &GenOpts) -> (String, Vec<String>) {
    match t.weighted(&[5, 2, 2, 2, 2]) {
        0 => {
            let (item, l) = gen_wild(t, opts);
            (item.render(), l)
        }
        1 => {
            let (item, l) = gen_item(t, opts);
            (item.render(), l)
        }
        2 => {
            let (item, l) = gen_soup_item(t);
            (item.render(), l)
        }
        3 => {
            let nf = 2 + t.below(3);
            let (item, l) = crate::props::c15::gen_faulty(t, nf);
            (item.render(), l)
        }
        // the instruction-selection lattice of C16: short inputs that often break several rules at once
        _ => crate::props::c16::gen_lattice(t),
    }
}

pub fn nontrivial(out: &Outcome) -> bool {
    match out {
        Outcome::Err(_) => {
            let mut m = out.err_set().unwrap();
            m.dedup();
            m.len() >= 2
        }
        Outcome::Ok(s) => s.matches("impl ").count() >= 3,
        _ => false,
    }
}

impl Part for InProcess {
    fn name(&self) -> &'static str {
        "in-process"
    }
    fn prop(&self) -> &'static str {
        "C19"
    }
    fn rule(&self) -> String {
        "Wild / valid / soup / fault-injected (2-4 simultaneous documented misuses) L1 inputs and instruction-selection-lattice inputs (see C16 `lattice`); each is expanded three times in one process (every std HashMap instance gets fresh RandomState keys, so unordered iteration shows up as different orders) and the three results must be equal: same token string, or the same diagnostics in the same order. Non-trivial = rejected with >= 2 distinct diagnostics, or accepted with >= 3 impls; distinct by input text.".into()
    }
    fn cases(&self, tier: Tier) -> usize {
        match tier {
            Tier::Quick => 72_000,
            Tier::Thorough => 1_200_000,
        }
    }
    fn max_tape(&self) -> usize {
        320
    }
    fn run_case(&self, tape: &[u16], ctx: &Ctx) -> CaseReport {
        let mut t = Tape::new(tape);
        let (text, mut labels) = gen_input(&mut t, &self.opts);
        let a = expand(&text);
        let b = expand(&text);
        let c = expand(&text);
        labels.push(format!("outcome:{}", a.kind()));
        let nt = nontrivial(&a);
        if let Outcome::Err(m) = &a {
            labels.push(format!("diagnostics:{}", (m.len().saturating_sub(1)).min(6)));
        }
        let verdict = if a == b && b == c {
            crate::runner::Verdict::Pass
        } else {
            let sig = match (&a, &b, &c) {
                (Outcome::Err(_), Outcome::Err(_), Outcome::Err(_)) if a.err_set() == b.err_set() && b.err_set() == c.err_set() => Some("diagnostic-order"),
                _ => None,
            };
            ctx.fail_or_known(
                "C19",
                sig,
                format!("same input expanded differently in one process: {} vs {} vs {}", a.short(), b.short(), c.short()),
                json!({"input": text, "first": a.short(), "second": b.short(), "third": c.short()}),
            )
        };
        CaseReport { key: text, nontrivial: nt, labels, verdict }
    }
}

pub fn extra_parts(res: &mut CheckResult, tier: Tier, seed: u64, known: &Known) {
    let opts = wild_opts();
    let n = match tier {
        Tier::Quick => 8_000,
        Tier::Thorough => 120_000,
    };
    let procs = match tier {
        Tier::Quick => 3,
        Tier::Thorough => 6,
    };
    let st = xproc::run_cross_process("C19", "cross-process", n, seed, known, procs, &move |tape: &[u16]| {
        let mut t = Tape::new(tape);
        gen_input(&mut t, &opts)
    });
    match st {
        Ok(s) => res.parts.push(s),
        Err(e) => res.inconclusive = Some(e),
    }
}

pub fn replay_cross(tape: &[u16], stored: Option<&str>, known: &Known, strict: bool) -> Result<Option<String>, String> {
    let opts = wild_opts();
    let mut t = Tape::new(tape);
    let text = match stored {
        Some(s) => s.to_string(),
        None => gen_input(&mut t, &opts).0,
    };
    let mut first: Option<Vec<String>> = None;
    for _ in 0..12 {
        let r = xproc::run_dump("dump-syn1", std::slice::from_ref(&text))?;
        match &first {
            None => first = Some(r),
            Some(f) => {
                if f != &r {
                    let _ = (known, strict);
                    return Ok(Some(format!("two processes expanded the same input differently: `{}` vs `{}`", xproc::trunc(&f[0], 300), xproc::trunc(&r[0], 300))));
                }
            }
        }
    }
    Ok(None)
}
