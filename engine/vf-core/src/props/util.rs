//! Helpers shared by the metamorphic E1 properties.
use crate::items::{split_items, ImplItem};
use crate::xp::{expand_tokens, parse_input, Outcome};
use std::collections::BTreeMap;

pub enum Exp {
    Ok { items: Vec<ImplItem>, text: String },
    /// rejected / panicked / not an item
    Other(Outcome),
    /// accepted but the splitter could not cut the output (C17's business)
    Unsplittable(String),
}

pub fn expand_items(text: &str) -> Exp {
    let di = match parse_input(text) {
        Ok(d) => d,
        Err(e) => return Exp::Other(Outcome::NotAnItem(e)),
    };
    match expand_tokens(&di) {
        Ok(ts) => match split_items(&ts) {
            Ok(items) => Exp::Ok { items, text: ts.to_string() },
            Err(_) => Exp::Unsplittable(ts.to_string()),
        },
        Err(o) => Exp::Other(o),
    }
}

pub fn item_multiset(items: &[ImplItem]) -> BTreeMap<String, usize> {
    let mut m = BTreeMap::new();
    for i in items {
        *m.entry(i.text.clone()).or_insert(0) += 1;
    }
    m
}

/// First difference between two multisets of impl texts, for reporting.
pub fn multiset_diff(a: &BTreeMap<String, usize>, b: &BTreeMap<String, usize>) -> Option<(Option<String>, Option<String>)> {
    let only_a: Vec<&String> = a.iter().filter(|(k, n)| b.get(*k).copied().unwrap_or(0) < **n).map(|x| x.0).collect();
    let only_b: Vec<&String> = b.iter().filter(|(k, n)| a.get(*k).copied().unwrap_or(0) < **n).map(|x| x.0).collect();
    if only_a.is_empty() && only_b.is_empty() {
        None
    } else {
        Some((only_a.first().map(|s| s.to_string()), only_b.first().map(|s| s.to_string())))
    }
}
