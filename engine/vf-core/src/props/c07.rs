//! C07 — owned, by-reference, fallible and into-existing flavours of a mapping agree.

use crate::e2::{CaseOutcome, E2Case, E2Part, Mode};
use crate::runner::Tier;
use crate::tape::Tape;

pub struct Flavours;

impl E2Part for Flavours {
    fn name(&self) -> &'static str {
        "flavours"
    }
    fn prop(&self) -> &'static str {
        "C07"
    }
    fn rule(&self) -> String {
        "One mapping (named or tuple struct, 1-5 members: plain / renamed / ~ expression per direction / ghost with default; D-only members through #[ghosts]; D members nobody mentions, in which case the `into` flavour carries ..sentinel(), also next to a bare #[parent] member; 1 in 4 named structs have a positional counterpart `D as ()` reached through index renames, and positional counterparts hold the members in a permuted order 2 times in 3) requested in all 12 flavours: infallible on S (from + into + into_existing) and fallible on a twin SF with the same member instructions (try_from + try_into + try_into_existing); in 2/3 of the cases one member of SF additionally raises Err(E(n))? on a trigger value. Oracle (pairwise, no reference): From(&d) == From(d.clone()); (&s).into() == s.clone().into(); TryX == Ok(X) member-wise on non-trigger inputs and Err(E(n)) on trigger inputs for all six fallible flavours; into_existing / try_into_existing on a sentinel-filled D equals into() (mentioned members equal, every other member keeps the sentinel). Non-trivial = >= 2 mapped members and (an unmentioned D member or an error-raising member); distinct by derive-input text.".into()
    }
    fn cases(&self, tier: Tier) -> usize {
        match tier {
            Tier::Quick => 3_200,
            Tier::Thorough => 32_000,
        }
    }
    fn mode(&self) -> Mode {
        Mode::Run
    }
    fn gen(&self, tape: &[u16]) -> E2Case {
        let mut t = Tape::new(tape);
        crate::plan_flavours::gen_case(&mut t, false)
    }
    fn sig(&self, _case: &E2Case, outcome: &CaseOutcome) -> Option<String> {
        match outcome {
            CaseOutcome::Rejected(m) if m.contains("panic") => Some("panic-is-C16".into()),
            _ => None,
        }
    }
}

pub fn e2_parts() -> Vec<Box<dyn E2Part>> {
    vec![Box::new(Flavours)]
}
