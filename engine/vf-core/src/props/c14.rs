//! C14 — repeat / skip_repeat / stop_repeat equal writing the instructions out.

use crate::dsl::*;
use crate::gen::{gen_item, GenOpts, Labels};
use crate::gen_repeat::{decorate_trait_repeats, write_out};
use crate::props::util::*;
use crate::runner::{CaseReport, Ctx, Part, Tier, Verdict};
use crate::tape::Tape;
use serde_json::json;

pub struct MemberRepeat {
    opts: GenOpts,
}
pub struct TraitRepeat;

pub fn parts() -> Vec<Box<dyn Part>> {
    vec![Box::new(MemberRepeat { opts: GenOpts { allow_repeat: true, allow_generics: false, random_spelling: true, repeat_heavy: true, ..GenOpts::default() } }), Box::new(TraitRepeat)]
}

fn outcome_key(e: &Exp) -> String {
    match e {
        Exp::Ok { text, .. } => format!("ok:{}", text),
        Exp::Unsplittable(t) => format!("ok:{}", t),
        Exp::Other(o) => match o {
            crate::xp::Outcome::Err(_) => format!("err:{:?}", o.err_set()),
            other => other.short(),
        },
    }
}

fn judge(item: &Item, mut labels: Vec<String>, ctx: &Ctx) -> CaseReport {
    let (wo, st) = write_out(item);
    let (text, wtext) = (item.render(), wo.render());
    let (a, b) = (expand_items(&text), expand_items(&wtext));
    let (ka, kb) = (outcome_key(&a), outcome_key(&b));
    labels.push(format!("outcome:{}", ka.split(':').next().unwrap_or("")));
    let boundary = st.skips > 0 || st.stops > 0 || st.ended_at_variant_end > 0 || labels.iter().any(|l| l == "repeat:categories" || l == "trait:repeat-categories" || l == "trait:skip_repeat" || l == "trait:stop_repeat");
    let nontrivial = (st.receivers + st.trait_receivers) >= 2 && boundary && matches!(a, Exp::Ok { .. });
    labels.push(format!("receivers:{}", (st.receivers + st.trait_receivers).min(9)));
    let verdict = if ka == kb {
        Verdict::Pass
    } else {
        let panic = ka.starts_with("Panic") || kb.starts_with("Panic");
        // signature: a repeated as_type keeps the cast type of the member it was written on
        let sig = if panic {
            Some("panic-is-C16".to_string())
        } else if text.contains("as_type") && matches!((&a, &b), (Exp::Ok { .. }, Exp::Ok { .. })) && differs_only_in_casts(&ka, &kb) {
            Some("repeated-as_type-keeps-carrier-type".to_string())
        } else {
            None
        };
        ctx.fail_or_known("C14", sig.as_deref(), format!("repeat form and written-out form differ: {} vs {}", crate::xproc::trunc(&ka, 160), crate::xproc::trunc(&kb, 160)), json!({"input": text, "written_out": wtext, "repeat_form_result": ka, "written_out_result": kb}))
    };
    CaseReport { key: text, nontrivial, labels, verdict }
}

/// True when the two outputs are equal after erasing the type that follows every `as` keyword.
fn differs_only_in_casts(a: &str, b: &str) -> bool {
    fn erase(s: &str) -> String {
        let toks: Vec<&str> = s.split_whitespace().collect();
        let mut out = vec![];
        let mut i = 0;
        while i < toks.len() {
            out.push(toks[i]);
            if toks[i] == "as" {
                // skip the (possibly multi-token) type up to the next `,` `)` `}` `;` at angle depth 0
                out.push("_");
                i += 1;
                let mut depth = 0i32;
                while i < toks.len() {
                    match toks[i] {
                        "<" => depth += 1,
                        ">" => depth -= 1,
                        "," | ")" | "}" | ";" if depth <= 0 => break,
                        _ => {}
                    }
                    i += 1;
                }
                continue;
            }
            i += 1;
        }
        out.join(" ")
    }
    erase(a) == erase(b)
}

impl Part for MemberRepeat {
    fn name(&self) -> &'static str {
        "member-repeat"
    }
    fn prop(&self) -> &'static str {
        "C14"
    }
    fn rule(&self) -> String {
        "Valid-mode L1 inputs (struct fields; enum variants and their payload fields) decorated with random non-conflicting placements of repeat, repeat(<categories>), repeat(permeate()), skip_repeat, stop_repeat, stop+repeat on one member, consecutive blocks, blocks ending at variant ends; carriers hold instructions of every category (map incl. as_type, child, parent, ghost, type_hint) over members of differing types; plus trait-level repeat params when instruction names coincide. Oracle: write_out implements the property's two sentences literally on the AST (copies appended after the member's own instructions, markers removed); both forms must give the same verdict and byte-identical output. Non-trivial = accepted, >= 2 receivers and >= 1 boundary feature (skip / stop / category filter / variant end); distinct by input text.".into()
    }
    fn cases(&self, tier: Tier) -> usize {
        match tier {
            Tier::Quick => 72_000,
            Tier::Thorough => 1_200_000,
        }
    }
    fn max_tape(&self) -> usize {
        360
    }
    fn run_case(&self, tape: &[u16], ctx: &Ctx) -> CaseReport {
        let mut t = Tape::new(tape);
        let (item, labels) = gen_item(&mut t, &self.opts);
        judge(&item, labels, ctx)
    }
}

impl Part for TraitRepeat {
    fn name(&self) -> &'static str {
        "trait-repeat"
    }
    fn prop(&self) -> &'static str {
        "C14"
    }
    fn rule(&self) -> String {
        "Struct or enum with 2-8 trait instructions over 1-2 instruction names (so several share a name) to distinct counterpart types, with vars / ..update / return / _ => default-case parameters and random non-conflicting repeat(<categories>) / skip_repeat / stop_repeat / stop+repeat parameters. Same oracle and non-triviality rule as member-repeat.".into()
    }
    fn cases(&self, tier: Tier) -> usize {
        match tier {
            Tier::Quick => 48_000,
            Tier::Thorough => 800_000,
        }
    }
    fn max_tape(&self) -> usize {
        200
    }
    fn run_case(&self, tape: &[u16], ctx: &Ctx) -> CaseReport {
        let mut t = Tape::new(tape);
        let mut lab = Labels(vec![]);
        let is_enum = t.chance(1, 3);
        let names: Vec<&str> = if t.coin() { vec![*t.pick(&["from_owned", "from", "map", "owned_into", "try_from_owned", "into_existing", "try_map"])] } else { vec![*t.pick(&["from_owned", "map_owned", "try_into"]), *t.pick(&["ref_into", "from_ref", "try_from_ref", "into_existing"])] };
        let n = 2 + t.below(7);
        let mut instrs: Vec<Instr> = vec![];
        for i in 0..n {
            let name = t.pick(&names).to_string();
            let name = if is_enum && name.contains("existing") { "into".to_string() } else { name };
            let fallible = trait_name_cells(&name).unwrap().1;
            let mut params = vec![];
            if t.chance(1, 3) {
                params.push(TParam::Vars(vec![(format!("w{}", i), format!("{}", i))]));
            }
            if t.chance(1, 5) {
                params.push(TParam::Attribute("inline".into()));
            }
            match t.below(8) {
                0 if !name.contains("existing") => params.push(TParam::Update("Default::default()".into())),
                1 => params.push(TParam::Return(format!("make{}(@)", i))),
                2 if is_enum => params.push(TParam::DefaultCase("todo!()".into())),
                _ => {}
            }
            instrs.push(Instr::Trait(TraitInstr { name, ty: format!("T{}", i), hint: None, err: if fallible { Some("E".into()) } else { None }, params }));
        }
        decorate_trait_repeats(&mut t, &mut instrs, &mut lab);
        let attrs = crate::gen::spell(&mut t, &GenOpts::default(), instrs, &mut lab);
        let body = if is_enum {
            Body::Enum(vec![VariantDef { attrs: vec![], name: "V0".into(), shape: Shape::Unit, fields: vec![] }, VariantDef { attrs: vec![Attr::bare(Instr::Ghost { name: "ghost".into(), ded: None, action: None })], name: "V1".into(), shape: Shape::Unit, fields: vec![] }])
        } else {
            Body::Struct(Shape::Named, vec![FieldDef { attrs: vec![], name: Some("a".into()), ty: "i32".into() }, FieldDef { attrs: vec![], name: Some("b".into()), ty: "i32".into() }])
        };
        lab.add(if is_enum { "enum" } else { "struct" });
        let item = Item { attrs, name: "S".into(), generics: String::new(), where_clause: String::new(), body };
        judge(&item, lab.0, ctx)
    }
}
