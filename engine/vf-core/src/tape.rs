//! The choice tape: every structured generator in this crate is a deterministic
//! function of a `&[u16]`.  Under proptest the tape is `vec(any::<u16>(), 0..=L)`
//! (so proptest owns every random choice and its shrinking — delete elements,
//! lower numbers — maps to structurally simpler inputs); under libFuzzer the raw
//! bytes are the tape.  `below(n)` is monotone in the drawn number, an exhausted
//! tape reads as 0, and alternative 0 is always the simplest one.

pub struct Tape<'a> {
    data: &'a [u16],
    pos: usize,
}

impl<'a> Tape<'a> {
    pub fn new(data: &'a [u16]) -> Self {
        Tape { data, pos: 0 }
    }

    pub fn raw(&mut self) -> u16 {
        let v = self.data.get(self.pos).copied().unwrap_or(0);
        self.pos += 1;
        v
    }

    pub fn exhausted(&self) -> bool {
        self.pos >= self.data.len()
    }

    pub fn consumed(&self) -> usize {
        self.pos
    }

    /// Uniform-ish in `0..n`, monotone in the raw draw (never `%`).
    pub fn below(&mut self, n: usize) -> usize {
        if n <= 1 {
            // still consume a draw so that tapes stay aligned when `n` varies
            self.raw();
            return 0;
        }
        ((self.raw() as usize) * n) >> 16
    }

    /// Inclusive range.
    pub fn range(&mut self, lo: usize, hi: usize) -> usize {
        lo + self.below(hi - lo + 1)
    }

    /// True with probability num/den; false is the "simple" alternative.
    pub fn chance(&mut self, num: usize, den: usize) -> bool {
        let v = self.below(den);
        v >= den - num
    }

    pub fn coin(&mut self) -> bool {
        self.chance(1, 2)
    }

    pub fn pick<'b, T>(&mut self, xs: &'b [T]) -> &'b T {
        &xs[self.below(xs.len())]
    }

    /// Index drawn according to integer weights (alternative 0 first).
    pub fn weighted(&mut self, weights: &[usize]) -> usize {
        let total: usize = weights.iter().sum();
        let mut v = self.below(total.max(1));
        for (i, w) in weights.iter().enumerate() {
            if v < *w {
                return i;
            }
            v -= *w;
        }
        weights.len() - 1
    }

    /// A value in -lim..=lim, 0 first.
    pub fn small_int(&mut self, lim: i64) -> i64 {
        let v = self.below((2 * lim + 1) as usize) as i64;
        // 0, 1, -1, 2, -2, ...
        if v % 2 == 0 {
            v / 2
        } else {
            -(v + 1) / 2
        }
    }

    /// Fisher-Yates driven by the tape; identity permutation for an all-zero tape.
    pub fn shuffle<T>(&mut self, xs: &mut [T]) {
        let n = xs.len();
        for i in 0..n.saturating_sub(1) {
            let j = i + self.below(n - i);
            xs.swap(i, j);
        }
    }

    /// Random subset preserving order; each element kept with probability num/den.
    pub fn subset<T: Clone>(&mut self, xs: &[T], num: usize, den: usize) -> Vec<T> {
        xs.iter().filter(|_| self.chance(num, den)).cloned().collect()
    }
}

pub fn bytes_to_tape(bytes: &[u8]) -> Vec<u16> {
    bytes
        .chunks(2)
        .map(|c| if c.len() == 2 { u16::from_le_bytes([c[0], c[1]]) } else { (c[0] as u16) << 8 })
        .collect()
}

pub fn tape_to_bytes(tape: &[u16]) -> Vec<u8> {
    tape.iter().flat_map(|v| v.to_le_bytes()).collect()
}
