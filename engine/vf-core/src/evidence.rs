//! Evidence writer: /verif/evidence/<ID>.json per EVIDENCE.schema.json, level "exploration".

use crate::runner::{PartStats, Tier};
use serde_json::{json, Value};

pub struct CheckResult {
    pub prop: String,
    pub parts: Vec<PartStats>,
    pub assumptions: Vec<String>,
    pub known_lines: Vec<String>,
    /// infrastructure trouble (exit 2)
    pub inconclusive: Option<String>,
}

impl CheckResult {
    pub fn violations(&self) -> usize {
        self.parts.iter().map(|p| p.violations.len()).sum()
    }
}

pub fn write_evidence(res: &CheckResult, tier: Tier, seed: u64, wall_s: f64) -> String {
    let evaluations: u64 = res.parts.iter().map(|p| p.evaluations).sum();
    let distinct: u64 = res.parts.iter().map(|p| p.distinct_nontrivial).sum();
    let mut samples: Vec<Value> = vec![];
    for p in &res.parts {
        for s in p.samples.iter().take(6) {
            let mut s = s.clone();
            if let Some(o) = s.as_object_mut() {
                o.insert("part".into(), json!(p.name));
            }
            samples.push(s);
        }
    }
    let rule = res.parts.iter().map(|p| format!("[{}] {}", p.name, p.rule)).collect::<Vec<_>>().join("  ");
    let known_hits: u64 = res.parts.iter().map(|p| p.known_hits.values().sum::<u64>()).sum();
    let v = json!({
        "property_id": res.prop,
        "tier": tier.name(),
        "seed": seed,
        "level": "exploration",
        "coverage": {
            "evaluations": evaluations,
            "distinct_nontrivial": distinct,
            "rule": rule,
            "samples": samples,
            "parts": res.parts.iter().map(|p| p.to_json()).collect::<Vec<_>>(),
            "known_hits_total": known_hits,
            "known_findings_reported": res.known_lines,
            "shards": crate::runner::SHARDS,
            "inconclusive": res.inconclusive,
        },
        "assumptions": res.assumptions,
        "wall_s": wall_s,
        "violations": res.violations(),
    });
    let dir = format!("{}/evidence", crate::verif_root());
    let _ = std::fs::create_dir_all(&dir);
    let path = format!("{}/{}.json", dir, res.prop);
    std::fs::write(&path, serde_json::to_string_pretty(&v).unwrap()).expect("write evidence");
    path
}
