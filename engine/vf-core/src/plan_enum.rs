//! L2 mapping plans for enums (C02): semantics first, then o2o instructions and — independently —
//! reference `match` functions.

use crate::dsl::*;
use crate::e2::E2Case;
use crate::plan_struct::ExprT;
use crate::tape::Tape;
use std::fmt::Write;

#[derive(Clone, Debug)]
pub enum PRole {
    Mapped { d_member: String, from: ExprT, into: ExprT },
    Ghost { default: i64 },
}

#[derive(Clone, Debug)]
pub enum Res {
    /// index of a unit variant of the result enum
    Variant(usize),
    Err(i64),
    /// falls through to the instruction's `_ =>` default case
    Default,
}

#[derive(Clone, Debug)]
pub enum VKind {
    Mapped {
        d_name: String,
        d_shape: Shape,
        hint: Option<Hint>,
        fields: Vec<PRole>,
        /// D-only payload members (member text, constant) supplied by variant-level #[ghosts]
        d_extra: Vec<(String, i64)>,
        /// variant-level expression `~(f0 + c)` instead of field-level instructions (tuple variants, all fields plain)
        variant_expr: Option<i64>,
    },
    /// S-only variant: skipped in From, `res` in Into
    Ghost { res: Res },
}

#[derive(Clone, Debug)]
pub struct VPlan {
    pub name: String,
    pub shape: Shape,
    pub field_names: Vec<String>,
    pub kind: VKind,
}

#[derive(Clone, Debug)]
pub struct DOnly {
    pub name: String,
    /// 0 = unit, 1 = tuple(1), 2 = named { q }
    pub shape: usize,
    pub res: Res,
}

#[derive(Clone, Debug)]
pub struct EnumPlan {
    pub variants: Vec<VPlan>,
    pub d_only: Vec<DOnly>,
    /// cells[fallible][kind] over FO, FR, OI, RI
    pub cells: [[bool; 6]; 2],
    pub from_default: Option<Res>,
    pub into_default: Option<Res>,
}

const FNAMES: [&str; 4] = ["a", "b", "c", "d"];
const DMEM: [&str; 4] = ["x", "y", "z", "w"];

impl EnumPlan {
    fn has(&self, k: usize) -> bool {
        self.cells[0][k] || self.cells[1][k]
    }
    fn fallible_from(&self) -> bool {
        self.cells[1][FO] || self.cells[1][FR]
    }
    fn fallible_into(&self) -> bool {
        self.cells[1][OI] || self.cells[1][RI]
    }
    /// unit variants of S usable as a From-side result value; of D for the Into side
    fn s_unit_variants(&self) -> Vec<usize> {
        self.variants.iter().enumerate().filter(|(_, v)| v.shape == Shape::Unit && matches!(v.kind, VKind::Mapped { d_shape: Shape::Unit, .. })).map(|x| x.0).collect()
    }
}

pub fn gen_plan(t: &mut Tape) -> EnumPlan {
    let mut cells = [[false; 6]; 2];
    let mut any = false;
    for group in [[FO, FR], [OI, RI]] {
        if !t.chance(4, 5) {
            continue;
        }
        let f = t.chance(1, 3) as usize;
        for k in group {
            if t.chance(3, 4) {
                cells[f][k] = true;
                any = true;
            }
        }
    }
    if !any {
        cells[0][FO] = true;
    }
    let has_from = cells[0][FO] || cells[0][FR] || cells[1][FO] || cells[1][FR];
    let has_into = cells[0][OI] || cells[0][RI] || cells[1][OI] || cells[1][RI];
    let fallible_from = cells[1][FO] || cells[1][FR];
    let fallible_into = cells[1][OI] || cells[1][RI];

    let nv = 1 + t.weighted(&[1, 3, 4, 3, 2, 1]);
    let mut variants: Vec<VPlan> = vec![];
    // the first variant is always a plain unit variant so that ghost results have a value to name
    for vi in 0..nv {
        let shape = if vi == 0 {
            Shape::Unit
        } else {
            match t.weighted(&[2, 3, 3]) {
                0 => Shape::Unit,
                1 => Shape::Tuple,
                _ => Shape::Named,
            }
        };
        let nf = if shape == Shape::Unit { 0 } else { 1 + t.weighted(&[3, 3, 3, 2]) };
        let field_names: Vec<String> = (0..nf).map(|i| if shape == Shape::Named { FNAMES[i].to_string() } else { format!("{}", i) }).collect();
        let name = format!("V{}", vi);
        // S-only ghost variant?
        if vi > 0 && has_into && t.chance(1, 7) {
            let res = match t.below(3) {
                0 => Res::Default,
                1 if fallible_into => Res::Err(30 + vi as i64),
                _ => Res::Variant(0),
            };
            variants.push(VPlan { name, shape, field_names, kind: VKind::Ghost { res } });
            continue;
        }
        let d_name = if vi > 0 && t.chance(1, 3) { format!("W{}", vi) } else { name.clone() };
        // form of the counterpart variant
        let mut d_shape = shape;
        let mut hint = None;
        if vi > 0 {
            match (shape, t.below(6)) {
                (Shape::Tuple, 0) => {
                    d_shape = Shape::Named;
                    hint = Some(Hint::Struct);
                }
                (Shape::Named, 0) => {
                    d_shape = Shape::Tuple;
                    hint = Some(Hint::Tuple);
                }
                (Shape::Tuple, 1) | (Shape::Named, 1) if !has_from => {
                    d_shape = Shape::Unit;
                    hint = Some(Hint::Unit);
                }
                (Shape::Unit, 0) if !has_into => {
                    d_shape = Shape::Tuple;
                    hint = Some(Hint::Tuple);
                }
                (Shape::Unit, 1) if !has_into => {
                    d_shape = Shape::Named;
                    hint = Some(Hint::Struct);
                }
                // explicit hint that repeats the default form
                (Shape::Tuple, 2) => hint = Some(Hint::Tuple),
                (Shape::Named, 2) => hint = Some(Hint::Struct),
                _ => {}
            }
        }
        let mut fields: Vec<PRole> = vec![];
        let variant_expr = if shape == Shape::Tuple && d_shape == Shape::Tuple && hint.is_none() && t.chance(1, 6) { Some(1 + t.below(9) as i64) } else { None };
        for i in 0..nf {
            if d_shape == Shape::Unit && shape != Shape::Unit {
                // counterpart variant carries nothing (Into only): members are simply not forwarded
                fields.push(PRole::Mapped { d_member: field_names[i].clone(), from: ExprT::Id, into: ExprT::Id });
                continue;
            }
            if variant_expr.is_none() && t.chance(1, 7) && nf > 1 {
                fields.push(PRole::Ghost { default: 400 + t.below(500) as i64 });
                continue;
            }
            let (from, into) = if variant_expr.is_some() { (ExprT::Id, ExprT::Id) } else { (gen_expr(t), gen_expr(t)) };
            fields.push(PRole::Mapped { d_member: String::new(), from, into });
        }
        // assign counterpart members to mapped fields (declaration order; names may differ)
        let mut r = 0;
        for (i, f) in fields.iter_mut().enumerate() {
            if let PRole::Mapped { d_member, .. } = f {
                if d_shape == Shape::Unit && shape != Shape::Unit {
                    continue;
                }
                *d_member = match d_shape {
                    Shape::Named => {
                        if shape == Shape::Named && !t.chance(1, 3) {
                            field_names[i].clone()
                        } else {
                            DMEM[r % 4].to_string()
                        }
                    }
                    _ => format!("{}", r),
                };
                r += 1;
            }
        }
        // positional counterpart: index renames may send the mapped members to other positions than their running order
        if d_shape == Shape::Tuple && variant_expr.is_none() && r >= 2 && t.chance(1, 3) {
            let mut perm: Vec<usize> = (0..r).collect();
            t.shuffle(&mut perm);
            let mut k = 0;
            for f in fields.iter_mut() {
                if let PRole::Mapped { d_member, .. } = f {
                    *d_member = format!("{}", perm[k]);
                    k += 1;
                }
            }
        }
        // D-only payload members
        let mut d_extra = vec![];
        if d_shape != Shape::Unit && shape != Shape::Unit && variant_expr.is_none() && has_into && t.chance(1, 6) {
            let m = if d_shape == Shape::Named { "gz".to_string() } else { format!("{}", r) };
            d_extra.push((m, 600 + t.below(300) as i64));
        }
        // a unit S variant facing a data-carrying D variant (From only): the D payload is ignored
        variants.push(VPlan { name, shape, field_names, kind: VKind::Mapped { d_name, d_shape, hint, fields, d_extra, variant_expr } });
    }

    // D-only variants (From side)
    let mut d_only = vec![];
    if has_from && t.chance(1, 4) {
        let n = 1 + t.below(2);
        for i in 0..n {
            let res = match t.below(3) {
                0 => Res::Default,
                1 if fallible_from => Res::Err(60 + i as i64),
                _ => Res::Variant(0),
            };
            d_only.push(DOnly { name: format!("X{}", i), shape: t.below(3), res });
        }
    }
    let needs_from_default = d_only.iter().any(|d| matches!(d.res, Res::Default));
    let needs_into_default = variants.iter().any(|v| matches!(v.kind, VKind::Ghost { res: Res::Default }));
    let from_default = if needs_from_default { Some(if fallible_from && t.coin() { Res::Err(91) } else { Res::Variant(0) }) } else { None };
    let into_default = if needs_into_default { Some(if fallible_into && t.coin() { Res::Err(92) } else { Res::Variant(0) }) } else { None };
    EnumPlan { variants, d_only, cells, from_default, into_default }
}

fn gen_expr(t: &mut Tape) -> ExprT {
    match t.weighted(&[5, 3, 2]) {
        0 => ExprT::Id,
        1 => ExprT::Add(1 + t.below(9) as i64),
        _ => ExprT::MulSub(1 + t.below(9) as i64),
    }
}

// ------------------------------------------------------------------------------------------------

fn payload_decl(shape: Shape, names: &[String]) -> String {
    match shape {
        Shape::Unit => String::new(),
        Shape::Tuple => format!("({})", names.iter().map(|_| "i64,").collect::<Vec<_>>().join(" ")),
        Shape::Named => format!(" {{ {} }}", names.iter().map(|n| format!("{}: i64,", n)).collect::<Vec<_>>().join(" ")),
    }
}

/// members of the D variant in declaration order: (member text, source)
fn d_variant_members(v: &VPlan) -> Vec<(String, Option<usize>)> {
    let mut out = vec![];
    if let VKind::Mapped { fields, d_extra, d_shape, .. } = &v.kind {
        if *d_shape == Shape::Unit {
            return out;
        }
        if v.shape == Shape::Unit {
            // data-carrying counterpart of a unit variant: one ignored member
            out.push((if *d_shape == Shape::Named { "q".to_string() } else { "0".to_string() }, None));
            return out;
        }
        for (i, f) in fields.iter().enumerate() {
            if let PRole::Mapped { d_member, .. } = f {
                out.push((d_member.clone(), Some(i)));
            }
        }
        for (m, _) in d_extra {
            out.push((m.clone(), None));
        }
        // a positional counterpart declares its members in index order
        if out.iter().all(|(m, _)| m.parse::<usize>().is_ok()) {
            out.sort_by_key(|(m, _)| m.parse::<usize>().unwrap());
        }
    }
    out
}

fn lit(enum_name: &str, variant: &str, shape: Shape, members: &[(String, String)]) -> String {
    match shape {
        Shape::Unit => format!("{}::{}", enum_name, variant),
        Shape::Tuple => format!("{}::{}({})", enum_name, variant, members.iter().map(|(_, v)| format!("{},", v)).collect::<Vec<_>>().join(" ")),
        Shape::Named => format!("{}::{} {{ {} }}", enum_name, variant, members.iter().map(|(m, v)| format!("{}: {}", m, v)).collect::<Vec<_>>().join(", ")),
    }
}

fn pat(enum_name: &str, variant: &str, shape: Shape, members: &[String], prefix: &str) -> String {
    match shape {
        Shape::Unit => format!("{}::{}", enum_name, variant),
        Shape::Tuple => format!("{}::{}({})", enum_name, variant, members.iter().enumerate().map(|(i, _)| format!("{}{},", prefix, i)).collect::<Vec<_>>().join(" ")),
        Shape::Named => format!("{}::{} {{ {} }}", enum_name, variant, members.iter().enumerate().map(|(i, m)| format!("{}: {}{}", m, prefix, i)).collect::<Vec<_>>().join(", ")),
    }
}

fn res_expr(plan: &EnumPlan, r: &Res, default: &Option<Res>, target: &str) -> String {
    let names: Vec<String> = if target == "S" { plan.variants.iter().map(|v| v.name.clone()).collect() } else { plan.variants.iter().map(|v| if let VKind::Mapped { d_name, .. } = &v.kind { d_name.clone() } else { String::new() }).collect() };
    match r {
        Res::Variant(i) => format!("Ok({}::{})", target, names[*i]),
        Res::Err(c) => format!("Err(E({}))", c),
        Res::Default => match default {
            Some(Res::Variant(i)) => format!("Ok({}::{})", target, names[*i]),
            Some(Res::Err(c)) => format!("Err(E({}))", c),
            _ => "unreachable!()".to_string(),
        },
    }
}

/// expression text for the DSL (`_ => expr`, ghost exprs): the value written by the user
fn res_dsl(plan: &EnumPlan, r: &Res, target: &str) -> String {
    let names: Vec<String> = if target == "S" { plan.variants.iter().map(|v| v.name.clone()).collect() } else { plan.variants.iter().map(|v| if let VKind::Mapped { d_name, .. } = &v.kind { d_name.clone() } else { String::new() }).collect() };
    match r {
        Res::Variant(i) => format!("{}::{}", target, names[*i]),
        Res::Err(c) => format!("Err(E({}))?", c),
        Res::Default => unreachable!(),
    }
}

/// Member / variant instruction name for one direction: the fallible spelling (exact level) when that direction is
/// fallible and the tape says so, else the infallible one (fallback level).
fn dir_name(t: &mut Tape, plan: &EnumPlan, base: &str) -> String {
    let (ks, _) = trait_name_cells(base).unwrap();
    let all_fallible = ks.iter().all(|k| !plan.cells[0][*k]) && ks.iter().any(|k| plan.cells[1][*k]);
    if all_fallible && t.coin() {
        match base {
            "owned_into" => "owned_try_into".into(),
            "ref_into" => "ref_try_into".into(),
            "into" => "try_into".into(),
            b => format!("try_{}", b),
        }
    } else {
        base.to_string()
    }
}

pub fn render(t: &mut Tape, plan: &EnumPlan, core_only: bool) -> E2Case {
    let mut labels: Vec<String> = vec![format!("variants:{}", plan.variants.len())];
    let mut facts: Vec<String> = vec![];
    let has_owned = plan.has(FO) || plan.has(OI);
    let has_ref = plan.has(FR) || plan.has(RI);
    let _ = has_owned;

    // ---- type definitions ---------------------------------------------------------------------
    let mut s_body = String::new();
    let mut s_body_attr = String::new();
    let mut d_body = String::new();
    for v in &plan.variants {
        let decl = format!("{}{}", v.name, payload_decl(v.shape, &v.field_names));
        let _ = write!(s_body, "{}, ", decl);
        // ---- instructions on this variant
        let mut vattrs: Vec<Instr> = vec![];
        let mut fattrs: Vec<Vec<Instr>> = vec![vec![]; v.field_names.len()];
        match &v.kind {
            VKind::Ghost { res } => {
                labels.push("ghost-variant".into());
                match res {
                    Res::Default => {
                        labels.push("ghost-variant:default-case".into());
                        vattrs.push(Instr::Ghost { name: "ghost".into(), ded: None, action: None })
                    }
                    r => vattrs.push(Instr::Ghost { name: "ghost".into(), ded: None, action: Some(format!("{{ {} }}", res_dsl(plan, r, "D"))) }),
                }
            }
            VKind::Mapped { d_name, d_shape, hint, fields, d_extra, variant_expr } => {
                let members = d_variant_members(v);
                let _ = write!(d_body, "{}{}, ", d_name, payload_decl(*d_shape, &members.iter().map(|m| m.0.clone()).collect::<Vec<_>>()));
                if let Some(h) = hint {
                    labels.push(format!("type_hint:{:?}", h));
                    vattrs.push(Instr::TypeHint { ded: None, hint: *h });
                }
                let renamed = *d_name != v.name;
                if renamed {
                    labels.push("variant-rename".into());
                }
                if let Some(c) = variant_expr {
                    labels.push("variant-expr".into());
                    let n = v.field_names.len();
                    let mk = |deref: &str, op: &str| format!("~({})", (0..n).map(|i| format!("{}f{} {} {}", deref, i, op, c)).collect::<Vec<_>>().join(", "));
                    let member = if renamed { Some(d_name.clone()) } else { None };
                    if plan.has(FO) {
                        vattrs.push(Instr::Member(MemberInstr { name: dir_name(t, plan, "from_owned"), ded: None, member: member.clone(), action: Some(mk("", "+")) }));
                    }
                    if plan.has(FR) {
                        vattrs.push(Instr::Member(MemberInstr { name: dir_name(t, plan, "from_ref"), ded: None, member: member.clone(), action: Some(mk("*", "+")) }));
                    }
                    if plan.has(OI) {
                        vattrs.push(Instr::Member(MemberInstr { name: dir_name(t, plan, "owned_into"), ded: None, member: member.clone(), action: Some(mk("", "-")) }));
                    }
                    if plan.has(RI) {
                        vattrs.push(Instr::Member(MemberInstr { name: dir_name(t, plan, "ref_into"), ded: None, member: member.clone(), action: Some(mk("*", "-")) }));
                    }
                } else if renamed {
                    let name = *t.pick(&["map", "map", "from+into"]);
                    // `map` covers both directions: the fallible spelling only when both directions are fallible
                    let both_fallible = !plan.cells[0].iter().any(|x| *x);
                    if name == "map" {
                        let n = if both_fallible && t.coin() { "try_map".to_string() } else { "map".to_string() };
                        vattrs.push(Instr::Member(MemberInstr { name: n, ded: None, member: Some(d_name.clone()), action: None }));
                    } else {
                        let nf = dir_name(t, plan, "from");
                        let ni = dir_name(t, plan, "into");
                        vattrs.push(Instr::Member(MemberInstr { name: nf, ded: None, member: Some(d_name.clone()), action: None }));
                        vattrs.push(Instr::Member(MemberInstr { name: ni, ded: None, member: Some(d_name.clone()), action: None }));
                    }
                }
                if !d_extra.is_empty() {
                    // o2o names positional bindings f<member index>: a D-only member whose index equals the S index of a
                    // mapped member that sits after a ghost gets the same binding name
                    if *d_shape != Shape::Named && d_extra.iter().any(|(m, _)| fields.iter().enumerate().any(|(i, f)| matches!(f, PRole::Mapped { .. }) && *m == format!("{}", i))) {
                        facts.push("variant-ghosts-index-equals-a-mapped-field-index".into());
                    }
                    labels.push("variant-ghosts".into());
                    vattrs.push(Instr::Ghosts { name: "ghosts".into(), ded: None, entries: d_extra.iter().map(|(m, c)| GhostEntry { child_path: None, ident: m.clone(), action: format!("{}", c) }).collect() });
                }
                // payload field instructions
                if variant_expr.is_none() && *d_shape != Shape::Unit && v.shape != Shape::Unit {
                    let mut running = 0usize;
                    for (i, f) in fields.iter().enumerate() {
                        let this_running = running;
                        if matches!(f, PRole::Mapped { .. }) {
                            running += 1;
                        }
                        match f {
                            PRole::Ghost { default } => {
                                labels.push("payload-ghost".into());
                                fattrs[i].push(Instr::Ghost { name: "ghost".into(), ded: None, action: Some(format!("{{ {} }}", default)) });
                            }
                            PRole::Mapped { d_member, from, into } => {
                                // default counterpart member: same name / same position
                                let default_member = if v.shape == Shape::Named && *d_shape == Shape::Named { v.field_names[i].clone() } else if *d_shape == Shape::Named { String::new() } else { format!("{}", i) };
                                // positional counterpart: the member's position is its running index among mapped fields
                                let rename_needed = (*d_shape == Shape::Named && *d_member != default_member) || (*d_shape == Shape::Tuple && *d_member != format!("{}", this_running));
                                if *d_shape == Shape::Tuple && rename_needed {
                                    labels.push("payload-index-rename".into());
                                }
                                let member = if rename_needed { Some(d_member.clone()) } else { None };
                                if rename_needed {
                                    labels.push("payload-rename".into());
                                }
                                if !from.is_id() || !into.is_id() {
                                    labels.push("payload-expr".into());
                                }
                                let same = from == into;
                                // owned flavours
                                let o_from = from.dsl("~");
                                let o_into = into.dsl("~");
                                let mk = |name: &str, member: &Option<String>, action: Option<String>| -> Option<Instr> {
                                    if member.is_none() && action.is_none() {
                                        None
                                    } else {
                                        Some(Instr::Member(MemberInstr { name: name.into(), ded: None, member: member.clone(), action }))
                                    }
                                };
                                if !has_ref {
                                    // no by-ref kinds: the shared names may be used
                                    if same && t.coin() {
                                        fattrs[i].extend(mk("map", &member, o_from.clone()));
                                    } else {
                                        if plan.has(FO) {
                                            let base = if t.coin() { "from" } else { "from_owned" };
                                            let n = dir_name(t, plan, base);
                                            fattrs[i].extend(mk(&n, &member, o_from.clone()));
                                        }
                                        if plan.has(OI) {
                                            let base = if t.coin() { "into" } else { "owned_into" };
                                            let n = dir_name(t, plan, base);
                                            fattrs[i].extend(mk(&n, &member, o_into.clone()));
                                        }
                                    }
                                } else {
                                    labels.push("payload-by-ref-deref".into());
                                    if same && plan.has(FO) && plan.has(OI) && t.coin() {
                                        fattrs[i].extend(mk("map_owned", &member, o_from.clone()));
                                    } else {
                                        if plan.has(FO) {
                                            { let n = dir_name(t, plan, "from_owned"); fattrs[i].extend(mk(&n, &member, o_from.clone())); }
                                        }
                                        if plan.has(OI) {
                                            { let n = dir_name(t, plan, "owned_into"); fattrs[i].extend(mk(&n, &member, o_into.clone())); }
                                        }
                                    }
                                    // by-ref flavours bind references: the expression dereferences
                                    let r_from = Some(from.dsl("*~").unwrap_or_else(|| "*~".to_string()));
                                    let r_into = Some(into.dsl("*~").unwrap_or_else(|| "*~".to_string()));
                                    if same && plan.has(FR) && plan.has(RI) && t.coin() {
                                        fattrs[i].extend(mk("map_ref", &member, r_from.clone()));
                                    } else {
                                        if plan.has(FR) {
                                            { let n = dir_name(t, plan, "from_ref"); fattrs[i].extend(mk(&n, &member, r_from.clone())); }
                                        }
                                        if plan.has(RI) {
                                            { let n = dir_name(t, plan, "ref_into"); fattrs[i].extend(mk(&n, &member, r_into.clone())); }
                                        }
                                    }
                                }
                                t.shuffle(&mut fattrs[i]);
                            }
                        }
                    }
                }
            }
        }
        // render the variant with attributes
        let va: String = vattrs.into_iter().map(|i| format!("{} ", if t.chance(1, 6) { Attr::wrapped(vec![i]).render() } else { Attr::auto(i).render() })).collect();
        let payload = match v.shape {
            Shape::Unit => String::new(),
            Shape::Tuple => format!("({})", fattrs.iter().map(|l| format!("{} i64,", l.iter().map(|i| Attr::auto(i.clone()).render()).collect::<Vec<_>>().join(" "))).collect::<Vec<_>>().join(" ")),
            Shape::Named => format!(" {{ {} }}", fattrs.iter().enumerate().map(|(i, l)| format!("{} {}: i64,", l.iter().map(|x| Attr::auto(x.clone()).render()).collect::<Vec<_>>().join(" "), v.field_names[i])).collect::<Vec<_>>().join(" ")),
        };
        let _ = write!(s_body_attr, "{}{}{}, ", va, v.name, payload);
    }
    for d in &plan.d_only {
        let _ = write!(d_body, "{}{}, ", d.name, match d.shape {
            0 => "",
            1 => "(i64,)",
            _ => " { q: i64, }",
        });
    }

    // ---- type-level instructions --------------------------------------------------------------
    let mut type_instrs: Vec<Instr> = vec![];
    let separate = plan.from_default.is_some() || plan.into_default.is_some();
    for f in 0..2 {
        if !plan.cells[f].iter().any(|x| *x) {
            continue;
        }
        let names: Vec<String> = if separate {
            let mut v = vec![];
            for group in [[FO, FR], [OI, RI]] {
                let mut cells = [false; 6];
                for k in group {
                    cells[k] = plan.cells[f][k];
                }
                if cells.iter().any(|x| *x) {
                    v.extend(crate::gen::cover_cells(t, cells, f == 1));
                }
            }
            v
        } else {
            crate::gen::cover_cells(t, plan.cells[f], f == 1)
        };
        for name in names {
            let (ks, _) = trait_name_cells(&name).unwrap();
            let mut params = vec![];
            let is_from = ks.iter().any(|k| *k == FO || *k == FR);
            if is_from {
                if let Some(r) = &plan.from_default {
                    labels.push("default-case:from".into());
                    params.push(TParam::DefaultCase(res_dsl(plan, r, "S")));
                }
            } else if let Some(r) = &plan.into_default {
                labels.push("default-case:into".into());
                params.push(TParam::DefaultCase(res_dsl(plan, r, "D")));
            }
            if ks.len() > 1 {
                labels.push("trait-shortcut".into());
            }
            type_instrs.push(Instr::Trait(TraitInstr { name, ty: "D".into(), hint: None, err: if f == 1 { Some("E".into()) } else { None }, params }));
        }
    }
    if !plan.d_only.is_empty() {
        labels.push("d-only-variants".into());
        let explicit: Vec<&DOnly> = plan.d_only.iter().filter(|d| !matches!(d.res, Res::Default)).collect();
        let entries: Vec<GhostEntry> = explicit
            .iter()
            .map(|d| GhostEntry {
                child_path: None,
                ident: match d.shape {
                    0 => d.name.clone(),
                    1 => format!("{}(..)", d.name),
                    _ => format!("{} {{ .. }}", d.name),
                },
                action: res_dsl(plan, &d.res, "S"),
            })
            .collect();
        if !entries.is_empty() {
            type_instrs.push(Instr::Ghosts { name: "ghosts".into(), ded: None, entries });
        } else {
            // README tests 43: the default case is emitted for From when a #[ghosts] instruction is present
            facts.push("from-default-without-ghosts-entries".into());
            type_instrs.push(Instr::Raw { name: "ghosts".into(), args: Some(String::new()) });
        }
    }
    if t.chance(1, 3) {
        t.shuffle(&mut type_instrs);
    }
    let type_attr_text: String = type_instrs.into_iter().map(|i| format!("{}\n", if t.chance(1, 6) { Attr::wrapped(vec![i]).render() } else { Attr::auto(i).render() })).collect();
    let derive_input = format!("{}pub enum S {{ {} }}", type_attr_text, s_body_attr);

    // ---- harness ------------------------------------------------------------------------------
    let mut h = String::new();
    h.push_str("#[derive(Debug, Clone, PartialEq)] pub struct E(pub i64);\n");
    let _ = write!(h, "#[derive(Debug, Clone, PartialEq)] pub enum S {{ {} }}\n#[derive(Debug, Clone, PartialEq)] pub enum D {{ {} }}\n", s_body, d_body);
    // reference: From
    let mut from_arms = String::new();
    let mut into_arms = String::new();
    let mut d_values: Vec<String> = vec![];
    let mut s_values: Vec<String> = vec![];
    let mut seed = 1000i64;
    let mut next = |t: &mut Tape| {
        seed += 37 + t.below(20) as i64;
        seed
    };
    for v in &plan.variants {
        match &v.kind {
            VKind::Ghost { res } => {
                let p = pat("S", &v.name, v.shape, &v.field_names, "_s");
                let _ = write!(into_arms, "{} => {}, ", p, res_expr(plan, res, &plan.into_default, "D"));
                let vals: Vec<(String, String)> = v.field_names.iter().map(|n| (n.clone(), format!("{}", next(t)))).collect();
                s_values.push(lit("S", &v.name, v.shape, &vals));
            }
            VKind::Mapped { d_name, d_shape, fields, d_extra, variant_expr, .. } => {
                let members = d_variant_members(v);
                let mnames: Vec<String> = members.iter().map(|m| m.0.clone()).collect();
                // From arm: D pattern binds d0.. ; S literal from roles
                let dp = pat("D", d_name, *d_shape, &mnames, "d");
                let mut svals: Vec<(String, String)> = vec![];
                for (i, f) in fields.iter().enumerate() {
                    let val = match f {
                        PRole::Ghost { default } => format!("{}", default),
                        PRole::Mapped { from, .. } => {
                            let pos = members.iter().position(|m| m.1 == Some(i));
                            match pos {
                                Some(p) => {
                                    let src = format!("(*d{})", p);
                                    match variant_expr {
                                        Some(c) => format!("({} + {})", src, c),
                                        None => from.reference(&src),
                                    }
                                }
                                None => "0".to_string(),
                            }
                        }
                    };
                    svals.push((v.field_names[i].clone(), val));
                }
                let _ = write!(from_arms, "{} => Ok({}), ", dp, lit("S", &v.name, v.shape, &svals));
                // Into arm
                let sp = pat("S", &v.name, v.shape, &v.field_names, "s");
                let mut dvals: Vec<(String, String)> = vec![];
                for (m, src) in &members {
                    let val = match src {
                        Some(i) => {
                            let sv = format!("(*s{})", i);
                            match (&fields[*i], variant_expr) {
                                (_, Some(c)) => format!("({} - {})", sv, c),
                                (PRole::Mapped { into, .. }, None) => into.reference(&sv),
                                _ => "0".into(),
                            }
                        }
                        None => match d_extra.iter().find(|e| &e.0 == m) {
                            Some((_, c)) => format!("{}", c),
                            None => "0".to_string(),
                        },
                    };
                    dvals.push((m.clone(), val));
                }
                let _ = write!(into_arms, "{} => Ok({}), ", sp, lit("D", d_name, *d_shape, &dvals));
                // source values
                let vals: Vec<(String, String)> = v.field_names.iter().map(|n| (n.clone(), format!("{}", next(t)))).collect();
                s_values.push(lit("S", &v.name, v.shape, &vals));
                let dv: Vec<(String, String)> = mnames.iter().map(|n| (n.clone(), format!("{}", next(t)))).collect();
                d_values.push(lit("D", d_name, *d_shape, &dv));
            }
        }
    }
    for d in &plan.d_only {
        let (p, v) = match d.shape {
            0 => (format!("D::{}", d.name), format!("D::{}", d.name)),
            1 => (format!("D::{}(..)", d.name), format!("D::{}({})", d.name, next(t))),
            _ => (format!("D::{} {{ .. }}", d.name), format!("D::{} {{ q: {} }}", d.name, next(t))),
        };
        let _ = write!(from_arms, "{} => {}, ", p, res_expr(plan, &d.res, &plan.from_default, "S"));
        d_values.push(v);
    }
    let has_from = plan.has(FO) || plan.has(FR);
    let has_into = plan.has(OI) || plan.has(RI);
    if has_from {
        let _ = write!(h, "pub fn ref_from(value: &D) -> ::core::result::Result<S, E> {{ match value {{ {} }} }}\n", from_arms);
    }
    if has_into {
        let _ = write!(h, "pub fn ref_into(value: &S) -> ::core::result::Result<D, E> {{ match value {{ {} }} }}\n", into_arms);
    }
    let _ = write!(h, "pub fn d_values() -> [D; {}] {{ [{}] }}\n", d_values.len(), d_values.join(", "));
    let _ = write!(h, "pub fn s_values() -> [S; {}] {{ [{}] }}\n", s_values.len(), s_values.join(", "));

    // ---- run ----------------------------------------------------------------------------------
    let mut r = String::new();
    if core_only {
        r.push_str("fn same<T>(_a: &T, _b: &T) {}\npub fn run() {\n");
    } else {
        r.push_str("fn chk<T: core::fmt::Debug + PartialEq>(out: &mut Vec<String>, fl: &str, got: &T, want: &T) { if got == want { out.push(format!(\"{} OK\", fl)); } else { out.push(format!(\"{} MISMATCH got={:?} want={:?}\", fl, got, want)); } }\n");
        r.push_str("pub fn run(out: &mut Vec<String>) {\n");
    }
    let sink = |fl: &str| if core_only { "same(&got, &want);".to_string() } else { format!("chk(out, &format!(\"{}#{{}}\", i), &got, &want);", fl) };
    for (k, f) in [(FO, false), (FR, false), (OI, false), (RI, false), (FO, true), (FR, true), (OI, true), (RI, true)] {
        if !plan.cells[f as usize][k] {
            continue;
        }
        let fl = basic_name(k, f);
        let body = match (k, f) {
            (FO, false) => format!("for (i, src) in d_values().into_iter().enumerate() {{ let want = ref_from(&src); let got: ::core::result::Result<S, E> = Ok(::core::convert::From::from(src)); {} }}", sink(fl)),
            (FR, false) => format!("for (i, src) in d_values().iter().enumerate() {{ let want = ref_from(src); let got: ::core::result::Result<S, E> = Ok(::core::convert::From::from(src)); {} }}", sink(fl)),
            (FO, true) => format!("for (i, src) in d_values().into_iter().enumerate() {{ let want = ref_from(&src); let got: ::core::result::Result<S, E> = ::core::convert::TryFrom::try_from(src); {} }}", sink(fl)),
            (FR, true) => format!("for (i, src) in d_values().iter().enumerate() {{ let want = ref_from(src); let got: ::core::result::Result<S, E> = ::core::convert::TryFrom::try_from(src); {} }}", sink(fl)),
            (OI, false) => format!("for (i, src) in s_values().into_iter().enumerate() {{ let want = ref_into(&src); let got: ::core::result::Result<D, E> = Ok(::core::convert::Into::into(src)); {} }}", sink(fl)),
            (RI, false) => format!("for (i, src) in s_values().iter().enumerate() {{ let want = ref_into(src); let got: ::core::result::Result<D, E> = Ok(::core::convert::Into::into(src)); {} }}", sink(fl)),
            (OI, true) => format!("for (i, src) in s_values().into_iter().enumerate() {{ let want = ref_into(&src); let got: ::core::result::Result<D, E> = ::core::convert::TryInto::try_into(src); {} }}", sink(fl)),
            (RI, true) => format!("for (i, src) in s_values().iter().enumerate() {{ let want = ref_into(src); let got: ::core::result::Result<D, E> = ::core::convert::TryInto::try_into(src); {} }}", sink(fl)),
            _ => unreachable!(),
        };
        let _ = write!(r, "    {{ {} }}\n", body);
    }
    r.push_str("}\n");

    let with_payload = plan.variants.iter().any(|v| !v.field_names.is_empty());
    let non_default = labels.iter().any(|l| l != &format!("variants:{}", plan.variants.len()) && l != "trait-shortcut");
    let nontrivial = plan.variants.len() >= 2 && with_payload && non_default;
    if plan.fallible_from() || plan.fallible_into() {
        labels.push("fallible".into());
    }
    if has_ref {
        labels.push("by-ref".into());
    }
    let _ = plan.s_unit_variants();
    E2Case { harness_src: h, derives: vec![derive_input.clone()], run_src: r, key: derive_input, labels, nontrivial, facts }
}
