//! E1 runner: fixed-work, sharded proptest search over choice tapes, with
//! shrinking, replay files, class counters and evidence statistics.

use crate::known::Known;
use crate::xp::hash64;
use proptest::test_runner::{Config, RngAlgorithm, TestCaseError, TestError, TestRng, TestRunner};
use serde_json::{json, Value};
use std::cell::{Cell, RefCell};
use std::collections::{BTreeMap, HashSet};
use std::sync::Mutex;

pub const SHARDS: usize = 16;

#[derive(Clone, Copy, PartialEq, Eq, Debug)]
pub enum Tier {
    Quick,
    Thorough,
}

impl Tier {
    pub fn name(self) -> &'static str {
        match self {
            Tier::Quick => "quick",
            Tier::Thorough => "thorough",
        }
    }
}

pub enum Verdict {
    Pass,
    /// Generated case lies outside the property's domain (counted, never reported).
    Discard(String),
    /// Failure that matches an open known finding (counted, search continues).
    Known(String),
    Fail { msg: String, detail: Value },
}

pub struct CaseReport {
    /// Text identifying the generated case; hashed for the distinct count.
    pub key: String,
    pub nontrivial: bool,
    pub labels: Vec<String>,
    pub verdict: Verdict,
}

impl CaseReport {
    pub fn pass(key: String, nontrivial: bool, labels: Vec<String>) -> Self {
        CaseReport { key, nontrivial, labels, verdict: Verdict::Pass }
    }
}

pub struct Ctx<'a> {
    pub known: &'a Known,
    /// Strict mode: known findings are not tolerated (used by replay of canonical inputs).
    pub strict: bool,
}

impl<'a> Ctx<'a> {
    /// Classify a failure: `Known(sig)` when an open finding of this property matches, else `Fail`.
    pub fn fail_or_known(&self, prop: &str, sig: Option<&str>, msg: String, detail: Value) -> Verdict {
        if !self.strict {
            if let Some(sig) = sig {
                if self.known.is_open(prop, sig) || census() {
                    return Verdict::Known(sig.to_string());
                }
            }
        }
        Verdict::Fail { msg, detail }
    }
}

/// Census mode (VF_CENSUS=1, debugging aid only): every failure that has a signature is tolerated and counted.
pub fn census() -> bool {
    std::env::var("VF_CENSUS").map_or(false, |v| v == "1")
}

/// One generated-search part of a property check.
pub trait Part: Sync {
    fn name(&self) -> &'static str;
    fn prop(&self) -> &'static str;
    fn rule(&self) -> String;
    fn max_tape(&self) -> usize {
        192
    }
    fn cases(&self, tier: Tier) -> usize;
    fn run_case(&self, tape: &[u16], ctx: &Ctx) -> CaseReport;
    /// Parts whose oracle is a function of the input text alone can replay a stored text (robust to generator changes).
    fn run_text(&self, _text: &str, _ctx: &Ctx) -> Option<CaseReport> {
        None
    }
}

#[derive(Default)]
pub struct PartStats {
    pub name: String,
    pub rule: String,
    pub evaluations: u64,
    pub nontrivial_total: u64,
    pub distinct_nontrivial: u64,
    pub distinct_total: u64,
    pub labels: BTreeMap<String, u64>,
    pub samples: Vec<Value>,
    pub known_hits: BTreeMap<String, u64>,
    pub discards: u64,
    pub discard_reasons: BTreeMap<String, u64>,
    pub violations: Vec<Violation>,
    pub extra: BTreeMap<String, Value>,
}

#[derive(Clone)]
pub struct Violation {
    pub replay: String,
    pub msg: String,
}

impl PartStats {
    pub fn to_json(&self) -> Value {
        json!({
            "part": self.name,
            "rule": self.rule,
            "evaluations": self.evaluations,
            "nontrivial_total": self.nontrivial_total,
            "distinct_nontrivial": self.distinct_nontrivial,
            "distinct_total": self.distinct_total,
            "class_histogram": self.labels,
            "known_hits": self.known_hits,
            "discards": self.discards,
            "discard_reasons": self.discard_reasons,
            "violations": self.violations.iter().map(|v| json!({"replay": v.replay, "msg": v.msg})).collect::<Vec<_>>(),
            "extra": self.extra,
        })
    }
}

struct ShardAcc {
    evaluations: u64,
    nontrivial_total: u64,
    nontrivial_hashes: HashSet<u64>,
    all_hashes: HashSet<u64>,
    labels: BTreeMap<String, u64>,
    samples: Vec<(String, Vec<String>)>,
    known_hits: BTreeMap<String, u64>,
    discards: u64,
    discard_reasons: BTreeMap<String, u64>,
}

pub fn seed32(seed: u64, prop: &str, part: &str, shard: usize) -> [u8; 32] {
    let mut s = [0u8; 32];
    s[..8].copy_from_slice(&seed.to_le_bytes());
    s[8..16].copy_from_slice(&hash64(prop).to_le_bytes());
    s[16..24].copy_from_slice(&hash64(part).to_le_bytes());
    s[24..32].copy_from_slice(&(shard as u64).to_le_bytes());
    s
}

pub fn safe_sig(sig: &str) -> String {
    sig.chars().map(|c| if c.is_ascii_alphanumeric() || c == '-' || c == '_' { c } else { '_' }).collect()
}

/// Census mode: keep the first (smallest seen) example tape per signature in work/census/, in replay-file format.
pub fn dump_census(prop: &str, part: &str, sig: &str, tape: &[u16], key: &str) {
    let dir = format!("{}/work/census", crate::verif_root());
    let _ = std::fs::create_dir_all(&dir);
    let path = format!("{}/{}-{}.json", dir, prop, safe_sig(sig));
    let better = match std::fs::read_to_string(&path).ok().and_then(|t| serde_json::from_str::<Value>(&t).ok()) {
        Some(v) => v["case"].as_str().map_or(true, |c| c.len() > key.len()),
        None => true,
    };
    if better {
        let v = json!({"property": prop, "part": part, "sig": sig, "tape": tape, "case": key});
        let _ = std::fs::write(&path, serde_json::to_string_pretty(&v).unwrap());
    }
}

pub fn replay_dir() -> String {
    let d = format!("{}/replays", crate::verif_root());
    let _ = std::fs::create_dir_all(&d);
    d
}

pub fn write_replay(prop: &str, part: &str, tag: &str, tape: &[u16], msg: &str, detail: &Value) -> String {
    let path = format!("{}/{}-{}-{}.json", replay_dir(), prop, part, tag);
    let v = json!({"property": prop, "part": part, "tape": tape, "msg": msg, "detail": detail});
    let _ = std::fs::write(&path, serde_json::to_string_pretty(&v).unwrap());
    path
}

pub fn run_part(part: &dyn Part, tier: Tier, seed: u64, known: &Known) -> PartStats {
    let total = part.cases(tier);
    let per_shard = (total + SHARDS - 1) / SHARDS;
    let results: Mutex<Vec<(usize, ShardAcc, Option<(Vec<u16>, String)>)>> = Mutex::new(Vec::new());

    std::thread::scope(|scope| {
        for shard in 0..SHARDS {
            let results = &results;
            std::thread::Builder::new()
                .stack_size(64 << 20)
                .spawn_scoped(scope, move || {
                    let r = run_shard(part, per_shard, seed, shard, known);
                    results.lock().unwrap().push((shard, r.0, r.1));
                })
                .unwrap();
        }
    });

    let mut results = results.into_inner().unwrap();
    results.sort_by_key(|x| x.0);

    let mut st = PartStats { name: part.name().into(), rule: part.rule(), ..Default::default() };
    let mut nt: HashSet<u64> = HashSet::new();
    let mut all: HashSet<u64> = HashSet::new();
    let mut sample_pool: Vec<(String, Vec<String>)> = vec![];
    for (shard, acc, fail) in results {
        st.evaluations += acc.evaluations;
        st.nontrivial_total += acc.nontrivial_total;
        nt.extend(acc.nontrivial_hashes);
        all.extend(acc.all_hashes);
        for (k, v) in acc.labels {
            *st.labels.entry(k).or_default() += v;
        }
        for (k, v) in acc.known_hits {
            *st.known_hits.entry(k).or_default() += v;
        }
        for (k, v) in acc.discard_reasons {
            *st.discard_reasons.entry(k).or_default() += v;
        }
        st.discards += acc.discards;
        sample_pool.extend(acc.samples);
        if let Some((tape, _reason)) = fail {
            // Re-run the shrunk tape to obtain the final message and detail.
            let ctx = Ctx { known, strict: false };
            let rep = part.run_case(&tape, &ctx);
            let (msg, detail) = match rep.verdict {
                Verdict::Fail { msg, detail } => (msg, detail),
                _ => ("failure did not reproduce on the shrunk tape (flaky oracle?)".to_string(), json!({"key": rep.key})),
            };
            let path = write_replay(part.prop(), part.name(), &format!("s{}-sh{}", seed, shard), &tape, &msg, &detail);
            st.violations.push(Violation { replay: path, msg });
        }
    }
    st.distinct_nontrivial = nt.len() as u64;
    st.distinct_total = all.len() as u64;
    // Samples: the first few non-trivial cases, preferring label variety.
    let mut seen_labels: HashSet<String> = HashSet::new();
    for (key, labels) in &sample_pool {
        if st.samples.len() >= 8 {
            break;
        }
        let fresh = labels.iter().any(|l| !seen_labels.contains(l));
        if st.samples.len() < 4 || fresh {
            for l in labels {
                seen_labels.insert(l.clone());
            }
            st.samples.push(json!({"case": key, "labels": labels}));
        }
    }
    st
}

fn run_shard(part: &dyn Part, cases: usize, seed: u64, shard: usize, known: &Known) -> (ShardAcc, Option<(Vec<u16>, String)>) {
    let cfg = Config {
        cases: cases as u32,
        failure_persistence: None,
        max_shrink_iters: 6000,
        max_local_rejects: 1 << 30,
        max_global_rejects: 1 << 30,
        verbose: 0,
        ..Config::default()
    };
    let rng = TestRng::from_seed(RngAlgorithm::ChaCha, &seed32(seed, part.prop(), part.name(), shard));
    let mut runner = TestRunner::new_with_rng(cfg, rng);
    let strat = proptest::collection::vec(proptest::num::u16::ANY, 0..=part.max_tape());

    let acc = RefCell::new(ShardAcc {
        evaluations: 0,
        nontrivial_total: 0,
        nontrivial_hashes: HashSet::new(),
        all_hashes: HashSet::new(),
        labels: BTreeMap::new(),
        samples: vec![],
        known_hits: BTreeMap::new(),
        discards: 0,
        discard_reasons: BTreeMap::new(),
    });
    let failed = Cell::new(false);
    let ctx = Ctx { known, strict: false };

    let res = runner.run(&strat, |tape| {
        let rep = part.run_case(&tape, &ctx);
        let counting = !failed.get();
        match rep.verdict {
            Verdict::Fail { msg, .. } => {
                failed.set(true);
                Err(TestCaseError::fail(msg))
            }
            other => {
                if counting {
                    let mut a = acc.borrow_mut();
                    a.evaluations += 1;
                    match &other {
                        Verdict::Discard(r) => {
                            a.discards += 1;
                            *a.discard_reasons.entry(r.clone()).or_default() += 1;
                        }
                        Verdict::Known(sig) => {
                            *a.known_hits.entry(sig.clone()).or_default() += 1;
                            if census() {
                                dump_census(part.prop(), part.name(), sig, &tape, &rep.key);
                            }
                        }
                        _ => {}
                    }
                    if !matches!(other, Verdict::Discard(_)) {
                        let h = hash64(&rep.key);
                        a.all_hashes.insert(h);
                        if rep.nontrivial {
                            a.nontrivial_total += 1;
                            if a.nontrivial_hashes.insert(h) && a.samples.len() < 24 {
                                a.samples.push((rep.key.clone(), rep.labels.clone()));
                            }
                        }
                        for l in rep.labels {
                            *a.labels.entry(l).or_default() += 1;
                        }
                    }
                }
                Ok(())
            }
        }
    });

    let fail = match res {
        Ok(()) => None,
        Err(TestError::Fail(reason, tape)) => Some((tape, reason.message().to_string())),
        Err(TestError::Abort(reason)) => {
            eprintln!("proptest aborted in {}: {}", part.name(), reason.message());
            std::process::exit(2);
        }
    };
    (acc.into_inner(), fail)
}

/// Watchdog: a hang is infrastructure trouble (exit 2), never a violation.
pub fn start_watchdog(secs: u64) {
    std::thread::spawn(move || {
        std::thread::sleep(std::time::Duration::from_secs(secs));
        eprintln!("watchdog: check exceeded {} s; inconclusive", secs);
        std::process::exit(2);
    });
}
