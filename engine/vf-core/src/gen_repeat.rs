//! repeat / skip_repeat / stop_repeat: random (non-conflicting) placement on
//! generated inputs, and the reference "write it out" transformation that
//! implements the two sentences of property C14 literally at the L1 level.

use crate::dsl::*;
use crate::gen::Labels;
use crate::tape::Tape;

pub const MEMBER_CATS: [&str; 5] = ["map", "child", "parent", "ghost", "type_hint"];
pub const TRAIT_CATS: [&str; 4] = ["vars", "update", "quick_return", "default_case"];

fn gen_member_cats(t: &mut Tape, carrier: &[Instr], lab: &mut Labels) -> (Vec<String>, bool) {
    // A parameterised #[parent(..)] names the carrier's own field type; repeating it over members of other types
    // is not something the documentation shows, so such carriers repeat an explicit category list without `parent`.
    if carrier.iter().any(|i| matches!(i, Instr::Parent { fields: Some(_), .. })) {
        lab.add("repeat:categories");
        let mut cats: Vec<String> = ["map", "child", "ghost", "type_hint"].iter().filter(|_| t.chance(2, 5)).map(|s| s.to_string()).collect();
        if cats.is_empty() {
            cats.push("map".into());
        }
        return (cats, true);
    }
    match t.below(4) {
        0 => (vec![], false),
        1 => (vec![], true),
        _ => {
            lab.add("repeat:categories");
            let mut cats: Vec<String> = MEMBER_CATS.iter().filter(|_| t.chance(2, 5)).map(|s| s.to_string()).collect();
            if cats.is_empty() {
                cats.push(t.pick(&MEMBER_CATS).to_string());
            }
            t.shuffle(&mut cats);
            (cats, true)
        }
    }
}

/// Place repeat markers on a sequence of members. `active` carries in/out for permeating blocks.
fn decorate_seq(t: &mut Tape, members: &mut [&mut Vec<Instr>], permeate_ok: bool, heavy: bool, active: &mut bool, lab: &mut Labels) -> bool {
    let mut permeating = false;
    let n = members.len();
    for i in 0..n {
        let m = &mut *members[i];
        if !*active {
            if (heavy && i + 1 < n && t.chance(2, 3)) || (!heavy && t.chance(1, 3)) {
                let (cats, parens) = gen_member_cats(t, m, lab);
                let permeate = permeate_ok && t.chance(1, 3);
                if permeate {
                    lab.add("repeat:permeate");
                    permeating = true;
                }
                m.insert(t.below(m.len() + 1), Instr::Repeat { permeate, cats, parens: parens || permeate });
                *active = true;
                lab.add("repeat");
            }
        } else {
            match t.weighted(&[if heavy { 9 } else { 5 }, 2, 2, 1]) {
                0 => {}
                1 => {
                    m.insert(t.below(m.len() + 1), Instr::SkipRepeat);
                    lab.add("skip_repeat");
                }
                2 => {
                    m.insert(t.below(m.len() + 1), Instr::StopRepeat);
                    *active = false;
                    lab.add("stop_repeat");
                }
                _ => {
                    let (cats, parens) = gen_member_cats(t, m, lab);
                    let permeate = permeate_ok && t.chance(1, 3);
                    m.insert(t.below(m.len() + 1), Instr::StopRepeat);
                    m.insert(t.below(m.len() + 1), Instr::Repeat { permeate, cats, parens: parens || permeate });
                    permeating = permeate;
                    lab.add("stop+repeat");
                }
            }
        }
    }
    permeating
}

pub fn decorate_struct_repeats(t: &mut Tape, fields: &mut Vec<(Vec<Instr>, String)>, heavy: bool, lab: &mut Labels) {
    if fields.len() < 2 || !t.chance(3, 4) {
        return;
    }
    let mut active = false;
    let mut refs: Vec<&mut Vec<Instr>> = fields.iter_mut().map(|f| &mut f.0).collect();
    decorate_seq(t, &mut refs, false, heavy, &mut active, lab);
}

pub fn decorate_enum_repeats(t: &mut Tape, variants: &mut Vec<(Vec<Instr>, String, Shape, Vec<(Vec<Instr>, String)>)>, heavy: bool, lab: &mut Labels) {
    // variant-level blocks
    if variants.len() >= 2 && t.chance(1, 3) {
        let mut active = false;
        let mut refs: Vec<&mut Vec<Instr>> = variants.iter_mut().map(|v| &mut v.0).collect();
        decorate_seq(t, &mut refs, false, heavy, &mut active, lab);
        lab.add("repeat:variant-level");
    }
    // payload-field blocks, possibly permeating into following variants
    if t.chance(3, 4) {
        let mut active = false;
        let mut permeating = false;
        for v in variants.iter_mut() {
            if !permeating {
                active = false;
            }
            let mut refs: Vec<&mut Vec<Instr>> = v.3.iter_mut().map(|f| &mut f.0).collect();
            let p = decorate_seq(t, &mut refs, true, heavy, &mut active, lab);
            if p {
                permeating = true;
            }
            if !active {
                permeating = false;
            }
            if active && !permeating {
                lab.add("repeat:ends-at-variant-end");
            }
        }
    }
}

/// Trait-level repeat parameters on instructions that share a name.
pub fn decorate_trait_repeats(t: &mut Tape, type_instrs: &mut Vec<Instr>, lab: &mut Labels) {
    let names: Vec<String> = type_instrs.iter().filter_map(|i| if let Instr::Trait(tr) = i { Some(tr.name.clone()) } else { None }).collect();
    let mut done: Vec<String> = vec![];
    for name in names {
        if done.contains(&name) {
            continue;
        }
        done.push(name.clone());
        let idxs: Vec<usize> = type_instrs.iter().enumerate().filter(|(_, i)| matches!(i, Instr::Trait(tr) if tr.name == name)).map(|(i, _)| i).collect();
        if idxs.len() < 2 || !t.chance(2, 3) {
            continue;
        }
        let mut active: Option<Vec<String>> = None; // categories being repeated
        for &ix in &idxs {
            let tr = if let Instr::Trait(tr) = &mut type_instrs[ix] { tr } else { unreachable!() };
            match &active {
                None => {
                    if t.chance(1, 2) {
                        let cats = start_trait_repeat(t, tr, lab);
                        active = Some(cats);
                    }
                }
                Some(cats) => {
                    let cats = cats.clone();
                    match t.weighted(&[5, 2, 1, 1]) {
                        0 => {
                            // receiver: must not own a parameter of a repeated category, nor a second tail
                            strip_conflicts(tr, &cats);
                        }
                        1 => {
                            tr.params.insert(0, TParam::SkipRepeat);
                            lab.add("trait:skip_repeat");
                        }
                        2 => {
                            tr.params.insert(0, TParam::StopRepeat);
                            active = None;
                            lab.add("trait:stop_repeat");
                        }
                        _ => {
                            tr.params.insert(0, TParam::StopRepeat);
                            let cats = start_trait_repeat(t, tr, lab);
                            active = Some(cats);
                            lab.add("trait:stop+repeat");
                        }
                    }
                }
            }
        }
    }
}

fn param_cat(p: &TParam) -> Option<&'static str> {
    match p {
        TParam::Vars(_) => Some("vars"),
        TParam::Update(_) => Some("update"),
        TParam::Return(_) => Some("quick_return"),
        TParam::DefaultCase(_) => Some("default_case"),
        _ => None,
    }
}

fn strip_conflicts(tr: &mut TraitInstr, cats: &[String]) {
    let all = cats.is_empty();
    tr.params.retain(|p| match param_cat(p) {
        Some(c) => !(all || cats.iter().any(|x| x == c)) && !p.is_tail(),
        None => true,
    });
}

fn start_trait_repeat(t: &mut Tape, tr: &mut TraitInstr, lab: &mut Labels) -> Vec<String> {
    lab.add("trait:repeat");
    // make sure there is something to repeat
    if !tr.params.iter().any(|p| param_cat(p).is_some()) {
        if t.coin() {
            tr.params.insert(0, TParam::Vars(vec![("rv".into(), "7".to_string())]));
        } else {
            tr.params.push(TParam::Return("Self(@.to_string())".into()));
        }
    }
    let cats: Vec<String> = if t.chance(1, 2) {
        vec![]
    } else {
        lab.add("trait:repeat-categories");
        let mut c: Vec<String> = TRAIT_CATS.iter().filter(|_| t.chance(1, 2)).map(|s| s.to_string()).collect();
        if c.is_empty() {
            c.push(t.pick(&TRAIT_CATS).to_string());
        }
        c
    };
    let pos = t.below(tr.params.iter().position(|p| p.is_tail()).unwrap_or(tr.params.len()) + 1);
    tr.params.insert(pos, TParam::Repeat(cats.clone()));
    cats
}

// ---------------------------------------------------------------------------------------------
// Reference write-out
// ---------------------------------------------------------------------------------------------

fn instr_cat(i: &Instr) -> Option<&'static str> {
    match i {
        Instr::Member(_) | Instr::AsType { .. } => Some("map"),
        Instr::Child { .. } => Some("child"),
        Instr::Parent { .. } => Some("parent"),
        Instr::Ghost { .. } => Some("ghost"),
        Instr::TypeHint { .. } => Some("type_hint"),
        _ => None,
    }
}

#[derive(Clone)]
struct Block {
    instrs: Vec<Instr>,
    permeate: bool,
}

fn flatten(attrs: &[Attr]) -> Vec<Instr> {
    attrs.iter().flat_map(|a| a.instrs().iter().cloned()).collect()
}

/// Process one member against the running block: returns the written-out instruction list.
fn write_out_member(attrs: &[Attr], block: &mut Option<Block>, stats: &mut WriteOutStats) -> Vec<Instr> {
    let own = flatten(attrs);
    let has_stop = own.iter().any(|i| matches!(i, Instr::StopRepeat));
    let has_skip = own.iter().any(|i| matches!(i, Instr::SkipRepeat));
    let repeat = own.iter().rev().find_map(|i| if let Instr::Repeat { permeate, cats, .. } = i { Some((*permeate, cats.clone())) } else { None });
    let mut out: Vec<Instr> = own.iter().filter(|i| !matches!(i, Instr::Repeat { .. } | Instr::SkipRepeat | Instr::StopRepeat)).cloned().collect();
    if has_stop {
        *block = None;
        stats.stops += 1;
    }
    if let Some((permeate, cats)) = repeat {
        let selected: Vec<Instr> = out.iter().filter(|i| instr_cat(i).map_or(false, |c| cats.is_empty() || cats.iter().any(|x| x == c))).cloned().collect();
        *block = Some(Block { instrs: selected, permeate });
        stats.blocks += 1;
    } else if let Some(b) = block {
        if has_skip {
            stats.skips += 1;
        } else {
            stats.receivers += 1;
            out.extend(b.instrs.iter().cloned());
        }
    }
    out
}

#[derive(Default, Debug, Clone)]
pub struct WriteOutStats {
    pub blocks: usize,
    pub receivers: usize,
    pub skips: usize,
    pub stops: usize,
    pub trait_receivers: usize,
    pub ended_at_variant_end: usize,
}

/// The written-out form of `item`: no repeat / skip_repeat / stop_repeat anywhere, every
/// receiver carries explicit copies (appended after its own instructions).
pub fn write_out(item: &Item) -> (Item, WriteOutStats) {
    let mut st = WriteOutStats::default();
    let mut out = item.clone();

    // trait level
    let mut type_instrs = flatten(&item.attrs);
    let mut carriers: Vec<(String, TraitInstr, Vec<String>)> = vec![];
    for i in type_instrs.iter_mut() {
        if let Instr::Trait(tr) = i {
            let has_stop = tr.params.iter().any(|p| matches!(p, TParam::StopRepeat));
            let has_skip = tr.params.iter().any(|p| matches!(p, TParam::SkipRepeat));
            let rep = tr.params.iter().find_map(|p| if let TParam::Repeat(c) = p { Some(c.clone()) } else { None });
            tr.params.retain(|p| !p.is_repeat_related());
            if has_stop {
                carriers.retain(|c| c.0 != tr.name);
            }
            if let Some(cats) = rep {
                carriers.retain(|c| c.0 != tr.name);
                carriers.push((tr.name.clone(), tr.clone(), cats));
            } else if let Some((_, carrier, cats)) = carriers.iter().find(|c| c.0 == tr.name) {
                if !has_skip {
                    st.trait_receivers += 1;
                    for p in &carrier.params {
                        if let Some(c) = param_cat(p) {
                            if cats.is_empty() || cats.iter().any(|x| x == c) {
                                if p.is_tail() {
                                    tr.params.push(p.clone());
                                } else {
                                    let pos = tr.params.iter().position(|q| q.is_tail()).unwrap_or(tr.params.len());
                                    tr.params.insert(pos, p.clone());
                                }
                            }
                        }
                    }
                }
            }
        }
    }
    out.attrs = type_instrs.into_iter().map(Attr::auto).collect();

    match (&item.body, &mut out.body) {
        (Body::Struct(_, fields), Body::Struct(_, ofields)) => {
            let mut block = None;
            for (f, of) in fields.iter().zip(ofields.iter_mut()) {
                of.attrs = write_out_member(&f.attrs, &mut block, &mut st).into_iter().map(Attr::auto).collect();
            }
        }
        (Body::Enum(vs), Body::Enum(ovs)) => {
            let mut vblock = None;
            let mut fblock: Option<Block> = None;
            for (v, ov) in vs.iter().zip(ovs.iter_mut()) {
                // payload fields first (their block may permeate), then the variant itself
                for (f, of) in v.fields.iter().zip(ov.fields.iter_mut()) {
                    of.attrs = write_out_member(&f.attrs, &mut fblock, &mut st).into_iter().map(Attr::auto).collect();
                }
                if let Some(b) = &fblock {
                    if !b.permeate {
                        fblock = None;
                        st.ended_at_variant_end += 1;
                    }
                }
                ov.attrs = write_out_member(&v.attrs, &mut vblock, &mut st).into_iter().map(Attr::auto).collect();
            }
        }
        _ => {}
    }
    (out, st)
}
