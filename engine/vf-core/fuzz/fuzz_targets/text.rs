#![no_main]
// Byte-level target: the input is the text of a derive input (seeded with every #[derive(o2o)] item of the README
// and of o2o-tests). Oracle: derive never unwinds (C16) and expanding twice gives the same result (C19).
use libfuzzer_sys::fuzz_target;

fuzz_target!(|data: &[u8]| {
    if let Ok(text) = std::str::from_utf8(data) {
        if let Some(msg) = vf_core::fuzzing::text_oracle(text) {
            panic!("VF-VIOLATION {}", msg);
        }
    }
});
