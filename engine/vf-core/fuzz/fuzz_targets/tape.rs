#![no_main]
// Structure-aware target: the raw bytes are the choice tape; the first byte selects the generator / oracle.
// The oracle is inside the target (no-unwind for C16, strict parse + shape for C17, expand-thrice equality
// for C19); failures that match an open known finding are tolerated so that the campaign continues.
use libfuzzer_sys::fuzz_target;

fuzz_target!(|data: &[u8]| {
    if data.is_empty() {
        return;
    }
    if let Some(msg) = vf_core::fuzzing::tape_oracle(data) {
        panic!("VF-VIOLATION {}", msg);
    }
});
